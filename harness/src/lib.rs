pub mod engine;
pub mod fmodel;
pub mod gen;
pub mod model;
pub mod props;
pub mod sut;
