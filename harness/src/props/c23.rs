//! C23 — HTTP writes acknowledged as queued are never silently dropped.
use proptest::collection::vec;
use proptest::prelude::*;
use proptest::sample::select;
use serde::{Deserialize, Serialize};
use serde_json::{json, Map, Value};

use crate::crash::{model_view, View};
use crate::engine::{fingerprint_json, Ctx, Outcome, Plan, Property, Tier};
use crate::gen::{self, DocOpts, SchemaSpec, TextOpts};
use crate::httpc::{self, Server};
use crate::model::{apply_ops, normal, Contents, QOp};
use crate::sut::Scratch;

#[derive(Clone, Debug, Serialize, Deserialize)]
pub enum DocSpec {
  Valid(String, Map<String, Value>),
  /// a line that is not JSON (only meaningful for /add)
  BadJson,
  /// a JSON value that is not an object
  NotObject,
  /// an object violating the schema: undeclared field / wrong type / no id
  Violation(String, u8),
}

#[derive(Clone, Debug, Serialize, Deserialize)]
pub enum Req {
  Add(Vec<DocSpec>),
  Bulk(Vec<DocSpec>),
  Delete(Vec<String>),
  Commit,
  Refresh,
  Compact,
  Search,
}

#[derive(Clone, Debug, Serialize, Deserialize)]
pub struct Case {
  pub refresh_on_commit: bool,
  pub reqs: Vec<Req>,
}

pub struct C23;

pub fn schema() -> SchemaSpec {
  SchemaSpec::simple()
}

fn doc_json(d: &DocSpec) -> Option<Value> {
  match d {
    DocSpec::Valid(id, body) => Some(gen::with_id(&schema(), id, body.clone())),
    DocSpec::BadJson => None,
    DocSpec::NotObject => Some(json!(42)),
    DocSpec::Violation(id, kind) => Some(match kind % 3 {
      0 => json!({"_id": id, "body": "x", "bogus": 1}),
      1 => json!({"_id": id, "year": "not a number"}),
      _ => json!({"body": "a document without an id"}),
    }),
  }
}

fn is_valid(d: &DocSpec) -> bool {
  matches!(d, DocSpec::Valid(..))
}

pub fn search_view(port: u16) -> Result<View, String> {
  let r = httpc::post_json(port, "/search", &json!({"query": {"type": "match_all"}, "limit": 200, "return_stored": true, "execution": "bm25"})).map_err(|e| format!("{e:#}"))?;
  if r.status != 200 {
    return Err(format!("/search answered {} {}", r.status, String::from_utf8_lossy(&r.body)));
  }
  let v = r.json().ok_or("search response is not JSON")?;
  let mut out = View::new();
  for h in v["hits"].as_array().cloned().unwrap_or_default() {
    let id = h["doc_id"].as_str().unwrap_or("").to_string();
    if out.insert(id.clone(), normal(&h["fields"])).is_some() {
      return Err(format!("id {id} returned twice"));
    }
  }
  Ok(out)
}

impl Property for C23 {
  type Case = Case;
  const ID: &'static str = "C23";
  fn rule() -> String {
    "cases = 5-30 requests against the real searchlite-http service (in-process, loopback TCP, fresh index via /init): /add (NDJSON) and /bulk with 1-4 documents that are valid, not JSON, not an object, or violate the schema (undeclared field, wrong type, no id) at a generated position; /delete with valid or invalid id lists; /commit, /refresh, /compact, /search. Queue model: a 2xx write appends its operations (and must report queued == number of documents), a rejected write appends nothing; /commit applies the queue in order; after every successful /commit and at the end /search(match_all) must equal the model exactly (ids and stored fields); a valid write or a /commit must never be rejected. Non-trivial = a rejected write arrived while acknowledged writes were queued and a later /commit succeeded; distinct = hash of the request list".into()
  }
  fn assumptions() -> Vec<String> {
    vec!["requests are sent one at a time (the property is about the queue, not about concurrency)".into()]
  }
  fn plan(tier: Tier) -> Plan {
    Plan { workers: 8, cases_per_worker: tier.pick(150, 4000) }
  }
  fn shrink_iters() -> u32 {
    800
  }
  fn isolate() -> bool {
    true
  }
  fn strategy(_tier: Tier) -> BoxedStrategy<Case> {
    let s = schema();
    let docopts = DocOpts { text: TextOpts { max_words: 3, odd: true, vocab: 8 }, max_multi: 2, absent: 3, max_nested_objs: 0, null_items: false, extremes: false };
    let valid = (gen::doc_id(6), gen::doc_body(&s, docopts)).prop_map(|(i, b)| DocSpec::Valid(i, b));
    let doc_add = prop_oneof![12 => valid.clone(), 1 => Just(DocSpec::BadJson), 1 => Just(DocSpec::NotObject), 2 => (gen::doc_id(6), any::<u8>()).prop_map(|(i, k)| DocSpec::Violation(i, k))];
    let doc_bulk = prop_oneof![12 => valid, 1 => Just(DocSpec::NotObject), 2 => (gen::doc_id(6), any::<u8>()).prop_map(|(i, k)| DocSpec::Violation(i, k))];
    let ids = prop_oneof![6 => vec(gen::doc_id(7), 1..3), 1 => Just(Vec::new()), 1 => Just(vec![" d1".to_string()]), 1 => Just(vec!["d1\n".to_string()])];
    let req = prop_oneof![
      6 => vec(doc_add, 1..5).prop_map(Req::Add),
      4 => vec(doc_bulk, 1..5).prop_map(Req::Bulk),
      3 => ids.prop_map(Req::Delete),
      4 => Just(Req::Commit),
      1 => Just(Req::Refresh),
      1 => Just(Req::Compact),
      2 => Just(Req::Search),
    ];
    (any::<bool>(), vec(req, 5..30)).prop_map(|(refresh_on_commit, reqs)| Case { refresh_on_commit, reqs }).boxed()
  }
  fn run(case: &Case, _ctx: &Ctx) -> Outcome {
    let mut out = Outcome::new();
    out.evals = 1;
    let scratch = Scratch::new("c23");
    let root = scratch.sub("idx");
    let extra: Vec<&str> = if case.refresh_on_commit { vec!["--refresh-on-commit"] } else { vec![] };
    let srv = match Server::start(&root, &extra) {
      Ok(s) => s,
      Err(e) => {
        out.inconclusive = Some(format!("cannot start the HTTP service: {e:#}"));
        return out;
      }
    };
    let port = srv.port;
    match httpc::post_json(port, "/init", &schema().to_json()) {
      Ok(r) if r.status == 200 => {}
      Ok(r) => {
        out.fail("init-failed", format!("/init answered {} {}", r.status, String::from_utf8_lossy(&r.body)));
        return out;
      }
      Err(e) => {
        out.fail("init-failed", format!("{e:#}"));
        return out;
      }
    }
    let mut committed = Contents::new();
    let mut queue: Vec<QOp> = Vec::new();
    let mut rejected_while_queued = false;
    let mut committed_after_reject = false;
    let check = |committed: &Contents, out: &mut Outcome, at: &str| -> bool {
      out.evals += 1;
      match search_view(port) {
        Err(e) => {
          out.fail("search-failed", format!("{at}: {e}"));
          false
        }
        Ok(v) => {
          let want = model_view(committed);
          if v != want {
            let lost: Vec<&String> = want.keys().filter(|k| !v.contains_key(*k)).collect();
            let sig = if !lost.is_empty() { "acknowledged-write-lost" } else if v.keys().any(|k| !want.contains_key(k)) { "unexpected-document" } else { "stored-fields-differ" };
            out.fail(sig, format!("{at}: /search shows ids {:?}, the queue model gives {:?} (missing {lost:?}); requests {:?}", v.keys().collect::<Vec<_>>(), want.keys().collect::<Vec<_>>(), case.reqs));
            false
          } else {
            true
          }
        }
      }
    };
    for (i, req) in case.reqs.iter().enumerate() {
      let (path, body, content_type, ops, all_valid, count): (&str, Vec<u8>, &str, Vec<QOp>, bool, usize) = match req {
        Req::Add(docs) => {
          let mut text = String::new();
          for d in docs {
            match doc_json(d) {
              Some(v) => text.push_str(&v.to_string()),
              None => text.push_str("{\"_id\": \"broken\", "),
            }
            text.push('\n');
          }
          let ops = docs.iter().filter_map(|d| if let DocSpec::Valid(id, _) = d { Some(QOp::Add(id.clone(), doc_json(d).unwrap())) } else { None }).collect();
          ("/add", text.into_bytes(), "application/x-ndjson", ops, docs.iter().all(is_valid), docs.len())
        }
        Req::Bulk(docs) => {
          let arr: Vec<Value> = docs.iter().map(|d| doc_json(d).unwrap_or(json!("not json"))).collect();
          let ops = docs.iter().filter_map(|d| if let DocSpec::Valid(id, _) = d { Some(QOp::Add(id.clone(), doc_json(d).unwrap())) } else { None }).collect();
          ("/bulk", json!({"docs": arr}).to_string().into_bytes(), "application/json", ops, docs.iter().all(|d| is_valid(d)), docs.len())
        }
        Req::Delete(ids) => {
          let valid = !ids.is_empty() && ids.iter().all(|s| s.trim() == s && !s.is_empty() && !s.chars().any(|c| c.is_control()));
          ("/delete", json!({"ids": ids}).to_string().into_bytes(), "application/json", ids.iter().map(|i| QOp::Del(i.clone())).collect(), valid, ids.len())
        }
        Req::Commit => ("/commit", Vec::new(), "application/json", vec![], true, 0),
        Req::Refresh => ("/refresh", Vec::new(), "application/json", vec![], true, 0),
        Req::Compact => ("/compact", Vec::new(), "application/json", vec![], true, 0),
        Req::Search => {
          if !check(&committed, &mut out, &format!("request {i} (/search)")) {
            return out;
          }
          continue;
        }
      };
      let resp = match httpc::request(port, "POST", path, &[("Content-Type", content_type)], &body) {
        Ok(r) => r,
        Err(e) => {
          out.fail("no-response", format!("request {i} {path}: {e:#}"));
          return out;
        }
      };
      let ok = (200..300).contains(&resp.status);
      let is_write = matches!(req, Req::Add(_) | Req::Bulk(_) | Req::Delete(_));
      if is_write {
        if ok && !all_valid {
          // accepting an invalid document is another property's business (C15/C24); the queue model ends here
          out.class("invalid-write-acknowledged-not-judged-here");
          return out;
        }
        if !ok && all_valid {
          out.fail("valid-write-rejected", format!("request {i} {path} with only valid content answered {} {}", resp.status, String::from_utf8_lossy(&resp.body)));
          return out;
        }
        if ok {
          let q = resp.json().and_then(|v| v["queued"].as_u64());
          if q != Some(count as u64) {
            out.fail("queued-count-wrong", format!("request {i} {path} carried {count} items, response {}", String::from_utf8_lossy(&resp.body)));
            return out;
          }
          queue.extend(ops);
        } else {
          out.class(format!("rejected:{path}"));
          if !queue.is_empty() {
            rejected_while_queued = true;
          }
        }
      } else if !ok {
        out.fail(format!("{}-failed", &path[1..]), format!("request {i} {path} answered {} {}; queued so far {} operations; requests {:?}", resp.status, String::from_utf8_lossy(&resp.body), queue.len(), &case.reqs[..=i]));
        return out;
      } else if matches!(req, Req::Commit) {
        apply_ops(&mut committed, &queue);
        queue.clear();
        if rejected_while_queued {
          committed_after_reject = true;
        }
        if !check(&committed, &mut out, &format!("after request {i} (/commit)")) {
          return out;
        }
      }
    }
    // whatever is still queued must commit now
    match httpc::request(port, "POST", "/commit", &[], b"") {
      Ok(r) if r.status == 200 => {
        apply_ops(&mut committed, &queue);
        if rejected_while_queued {
          committed_after_reject = true;
        }
        if !check(&committed, &mut out, "after the final /commit") {
          return out;
        }
      }
      Ok(r) => {
        out.fail("commit-failed", format!("final /commit answered {} {}", r.status, String::from_utf8_lossy(&r.body)));
        return out;
      }
      Err(e) => {
        out.fail("no-response", format!("final /commit: {e:#}"));
        return out;
      }
    }
    if committed_after_reject {
      out.nontrivial(fingerprint_json(&case.reqs));
    }
    drop(srv);
    out
  }
}
