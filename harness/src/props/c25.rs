//! C25 — CLI, HTTP and FFI agree with the Rust API: the same script through a front-end and through
//! the library (same call pattern, same options) must give the same contents and search responses.
use std::ffi::CString;
use std::os::raw::c_char;
use std::path::{Path, PathBuf};
use std::process::Command;

use proptest::collection::vec;
use proptest::prelude::*;
use proptest::sample::select;
use serde::{Deserialize, Serialize};
use serde_json::{json, Map, Value};

use searchlite_core::api::Index;

use crate::engine::{fingerprint_json, Ctx, Outcome, Plan, Property, Tier};
use crate::gen::{self, DocOpts, TextOpts};
use crate::httpc::{self, Server};
use crate::rank::close;
use crate::scoreworld;
use crate::sut::{self, Scratch, StorageKind};

#[derive(Clone, Copy, Debug, PartialEq, Serialize, Deserialize)]
pub enum FrontEnd {
  Cli,
  Http,
  Ffi,
}

#[derive(Clone, Debug, Serialize, Deserialize)]
pub struct SearchSpec {
  /// query-string text, or a JSON node (CLI: only through a request file)
  pub query: Value,
  pub limit: usize,
  pub sort: Vec<(String, Option<String>)>,
  pub aggs: Option<Value>,
  pub execution: String,
  pub return_stored: bool,
  /// CLI: pass the whole request as a JSON file instead of flags
  pub request_file: bool,
  /// follow next_cursor once
  pub page2: bool,
}

#[derive(Clone, Debug, Serialize, Deserialize)]
pub enum Step {
  Add(Vec<(String, Map<String, Value>)>),
  Delete(Vec<String>),
  Commit,
  Compact,
  Search(SearchSpec),
}

#[derive(Clone, Debug, Serialize, Deserialize)]
pub struct Case {
  pub front: FrontEnd,
  pub steps: Vec<Step>,
}

pub struct C25;

fn schema() -> crate::gen::SchemaSpec {
  scoreworld::schema()
}

fn lib_options(root: &Path) -> searchlite_core::api::types::IndexOptions {
  // every front-end opens the index with k1 0.9, b 0.4, positions on
  sut::index_options(root, true, StorageKind::Fs, 0.9, 0.4)
}

fn lib_open(root: &Path) -> anyhow::Result<Index> {
  Index::open(lib_options(root))
}

fn cli_bin() -> PathBuf {
  std::env::var("VERIF_CLI_BIN").map(PathBuf::from).unwrap_or_else(|_| crate::engine::verif_root().join("target/repo-bins/release/searchlite-cli"))
}

fn cli(args: &[&str]) -> Result<String, String> {
  let out = Command::new(cli_bin()).args(args).env_remove("RUST_LOG").output().map_err(|e| format!("cannot run the CLI: {e}"))?;
  if out.status.success() {
    Ok(String::from_utf8_lossy(&out.stdout).to_string())
  } else {
    Err(format!("exit {:?}: {}", out.status.code(), String::from_utf8_lossy(&out.stderr)))
  }
}

/// The request every front-end ends up building for this spec.
fn request_json(spec: &SearchSpec, front: FrontEnd, cursor: Option<&str>) -> Value {
  let mut r = match front {
    // searchlite_search: execution wand, stored fields on, no sort
    FrontEnd::Ffi => json!({"query": spec.query, "limit": spec.limit, "execution": "wand", "return_stored": true, "return_hits": true}),
    _ => {
      let sort: Vec<Value> = spec.sort.iter().map(|(f, o)| match o { Some(o) => json!({"field": f, "order": o}), None => json!({"field": f}) }).collect();
      json!({"query": spec.query, "limit": spec.limit, "execution": spec.execution, "return_stored": spec.return_stored, "return_hits": true, "sort": sort})
    }
  };
  if let Some(a) = &spec.aggs {
    r["aggs"] = a.clone();
  }
  if let Some(c) = cursor {
    r["cursor"] = json!(c);
  }
  r
}

fn json_close(a: &Value, b: &Value) -> bool {
  match (a, b) {
    (Value::Number(x), Value::Number(y)) => match (x.as_i64(), y.as_i64()) {
      (Some(i), Some(j)) => i == j,
      _ => match (x.as_f64(), y.as_f64()) {
        (Some(f), Some(g)) => close(f as f32, g as f32) || crate::rank::close64(f, g),
        _ => x == y,
      },
    },
    (Value::Array(x), Value::Array(y)) => x.len() == y.len() && x.iter().zip(y.iter()).all(|(p, q)| json_close(p, q)),
    (Value::Object(x), Value::Object(y)) => {
      let keys = |m: &Map<String, Value>| m.iter().filter(|(k, v)| *k != "profile" && !v.is_null()).map(|(k, _)| k.clone()).collect::<Vec<_>>();
      keys(x) == keys(y) && keys(x).iter().all(|k| json_close(&x[k], &y[k]))
    }
    _ => a == b,
  }
}

struct Ffi(*mut searchlite_ffi::IndexHandle);
impl Drop for Ffi {
  fn drop(&mut self) {
    unsafe { searchlite_ffi::searchlite_index_close(self.0) }
  }
}

fn cstr(s: &str) -> CString {
  CString::new(s.bytes().filter(|b| *b != 0).collect::<Vec<u8>>()).unwrap()
}

impl Property for C25 {
  type Case = Case;
  const ID: &'static str = "C25";
  fn rule() -> String {
    "cases = a front-end (CLI binary built from the working tree and run as a subprocess per command; HTTP service in-process over loopback; C FFI) and a script of 4-14 steps on a fresh index: add/update documents (JSONL file, NDJSON body, add_json), delete ids, commit, compact, and searches restricted to what the front-end can express (CLI flags -q/--limit/--execution/--sort/--aggs/--return-stored/--cursor or a --request file; HTTP JSON; FFI query/limit/cursor/aggs). The same script runs through the Rust API on a second directory with the front-end's own call pattern (index opened per command for the CLI, commit per document for add_json) and options (k1 0.9, b 0.4, positions on). Every search response must be equal as JSON (f32 scores within 1e-5 relative, profile ignored) including next_cursor and the second page, a command may fail only where the API call fails, and at the end both directories hold the same documents with the same stored fields. Non-trivial = >= 2 commits, a delete, and a search using sort, aggregations or a cursor; distinct = hash of (front-end, script)".into()
  }
  fn assumptions() -> Vec<String> {
    vec!["documents in the script are schema-valid and ids unique per file (what a front-end does with an invalid document is C15/C23/C24 territory)".into()]
  }
  fn plan(tier: Tier) -> Plan {
    Plan { workers: 8, cases_per_worker: tier.pick(60, 1500) }
  }
  fn shrink_iters() -> u32 {
    300
  }
  fn isolate() -> bool {
    true
  }
  fn strategy(_tier: Tier) -> BoxedStrategy<Case> {
    let s = schema();
    let docopts = DocOpts { text: TextOpts { max_words: 5, odd: true, vocab: 5 }, max_multi: 2, absent: 1, max_nested_objs: 0, null_items: false, extremes: false };
    let docs = vec((gen::doc_id(10), gen::doc_body(&s, docopts)), 2..7);
    let query = prop_oneof![
      5 => select(vec!["rust", "rust", "ruby", "rust ruby rubber", "search engine", "rubber", "nothing", "body:rust", "title:ruby", "\"rust ruby\"", "\"search engine\"", "\"ruby rust\" rubber", "-rust ruby", "+rust"]).prop_map(|s| json!(s)),
      2 => select(vec![json!({"type": "match_all"}), json!({"type": "term", "field": "body", "value": "rust"}), json!({"type": "prefix", "field": "body", "value": "r"}), json!({"type": "bool", "should": [{"type": "term", "field": "body", "value": "fox"}, {"type": "term", "field": "tag", "value": "red"}]})]),
    ];
    let sort = vec((select(vec!["_score", "_score", "year", "price", "tag", "rank"]).prop_map(|s| s.to_string()), proptest::option::weighted(0.65, select(vec!["asc", "desc", "desc"]).prop_map(|s| s.to_string()))), 0..3);
    let aggs = proptest::option::weighted(0.4, select(vec![json!({"t": {"type": "terms", "field": "tag"}}), json!({"s": {"type": "stats", "field": "year"}, "h": {"type": "histogram", "field": "price", "interval": 0.5}}), json!({"th": {"type": "top_hits", "size": 2}})]));
    let search = (query, 1usize..6, sort, aggs, select(vec!["wand", "bm25", "bmw"]), any::<bool>(), any::<bool>(), any::<bool>())
      .prop_map(|(query, limit, sort, aggs, execution, return_stored, request_file, page2)| Step::Search(SearchSpec { query, limit, sort, aggs, execution: execution.to_string(), return_stored, request_file, page2 }));
    let step = prop_oneof![
      5 => docs.prop_map(Step::Add),
      2 => vec(gen::doc_id(9), 1..3).prop_map(Step::Delete),
      4 => Just(Step::Commit),
      1 => Just(Step::Compact),
      5 => search,
    ];
    (select(vec![FrontEnd::Cli, FrontEnd::Cli, FrontEnd::Http, FrontEnd::Http, FrontEnd::Ffi]), vec(step, 4..14)).prop_map(|(front, steps)| Case { front, steps }).boxed()
  }
  fn run(case: &Case, _ctx: &Ctx) -> Outcome {
    let mut out = Outcome::new();
    let scratch = Scratch::new("c25");
    let fe_root = scratch.sub("front");
    let lib_root = scratch.sub("lib");
    let files = scratch.sub("files");
    let _ = std::fs::create_dir_all(&files);
    let s = schema();
    // both directories start from the same schema, created the way the front-end creates it
    let schema_file = files.join("schema.json");
    let _ = std::fs::write(&schema_file, s.to_json().to_string());
    if let Err(e) = Index::create(&lib_root, s.to_schema(), lib_options(&lib_root)).map(drop) {
      out.fail("library-create-failed", format!("{e:#}"));
      return out;
    }
    let mut server: Option<Server> = None;
    let mut ffi: Option<Ffi> = None;
    let init: Result<(), String> = match case.front {
      FrontEnd::Cli => cli(&["init", &fe_root.display().to_string(), &schema_file.display().to_string()]).map(|_| ()),
      FrontEnd::Http => match Server::start(&fe_root, &[]) {
        Err(e) => {
          out.inconclusive = Some(format!("cannot start the HTTP service: {e:#}"));
          return out;
        }
        Ok(srv) => {
          let r = httpc::post_json(srv.port, "/init", &s.to_json()).map_err(|e| format!("{e:#}")).and_then(|r| if r.status == 200 { Ok(()) } else { Err(format!("/init {} {}", r.status, String::from_utf8_lossy(&r.body))) });
          server = Some(srv);
          r
        }
      },
      FrontEnd::Ffi => {
        // the C API cannot create an index with a schema: it opens one made by the library
        match Index::create(&fe_root, s.to_schema(), lib_options(&fe_root)).map(drop) {
          Err(e) => Err(format!("{e:#}")),
          Ok(()) => {
            let p = cstr(&fe_root.display().to_string());
            let h = unsafe { searchlite_ffi::searchlite_index_open(p.as_ptr(), false) };
            if h.is_null() {
              Err("searchlite_index_open returned null".to_string())
            } else {
              ffi = Some(Ffi(h));
              Ok(())
            }
          }
        }
      }
    };
    if let Err(e) = init {
      out.fail("front-end-init-failed", format!("{:?}: {e}", case.front));
      return out;
    }
    out.class(format!("front:{:?}", case.front));
    let (mut commits, mut deleted, mut rich_search) = (0usize, false, false);
    for (i, step) in case.steps.iter().enumerate() {
      out.evals += 1;
      let at = format!("step {i} of {:?} via {:?}", case.steps.iter().map(|s| match s { Step::Add(_) => "add", Step::Delete(_) => "delete", Step::Commit => "commit", Step::Compact => "compact", Step::Search(_) => "search" }).collect::<Vec<_>>(), case.front);
      match step {
        Step::Add(docs) => {
          // unique ids per batch (a file with the same id twice is fine for the engine, but keeps the script simple)
          let docs: Vec<Value> = docs.iter().map(|(id, b)| gen::with_id(&s, id, b.clone())).collect();
          let fe: Result<(), String> = match case.front {
            FrontEnd::Cli => {
              let f = files.join(format!("docs{i}.jsonl"));
              let _ = std::fs::write(&f, docs.iter().map(|d| d.to_string()).collect::<Vec<_>>().join("\n"));
              cli(&[if i % 2 == 0 { "add" } else { "update" }, &fe_root.display().to_string(), &f.display().to_string()]).map(|_| ())
            }
            FrontEnd::Http => {
              let body = docs.iter().map(|d| d.to_string()).collect::<Vec<_>>().join("\n");
              let port = server.as_ref().unwrap().port;
              let r = if i % 2 == 0 { httpc::request(port, "POST", "/add", &[("Content-Type", "application/x-ndjson")], body.as_bytes()) } else { httpc::post_json(port, "/bulk", &json!({"docs": docs})) };
              r.map_err(|e| format!("{e:#}")).and_then(|r| if r.status == 200 { Ok(()) } else { Err(format!("{} {}", r.status, String::from_utf8_lossy(&r.body))) })
            }
            FrontEnd::Ffi => {
              let mut res = Ok(());
              for d in docs.iter() {
                let js = cstr(&d.to_string());
                let rc = unsafe { searchlite_ffi::searchlite_add_json(ffi.as_ref().unwrap().0, js.as_ptr(), js.as_bytes().len()) };
                if rc < 0 {
                  res = Err(format!("searchlite_add_json returned {rc}"));
                  break;
                }
              }
              res
            }
          };
          let lib: anyhow::Result<()> = (|| {
            if case.front == FrontEnd::Ffi {
              for d in docs.iter() {
                let idx = lib_open(&lib_root)?;
                let mut w = idx.writer()?;
                w.add_document(&sut::document(d))?;
                w.commit()?;
              }
              return Ok(());
            }
            let idx = lib_open(&lib_root)?;
            let mut w = idx.writer()?;
            for d in docs.iter() {
              w.add_document(&sut::document(d))?;
            }
            Ok(())
          })();
          if case.front == FrontEnd::Ffi {
            commits += docs.len();
          }
          if fe.is_ok() != lib.is_ok() {
            out.fail("front-end-and-api-disagree-on-success", format!("{at}: front-end {fe:?}, API {:?}", lib.map_err(|e| format!("{e:#}"))));
            return out;
          }
        }
        Step::Delete(ids) => {
          if case.front == FrontEnd::Ffi {
            continue; // the C API has no delete
          }
          let fe: Result<(), String> = match case.front {
            FrontEnd::Cli => {
              let f = files.join(format!("ids{i}.txt"));
              let _ = std::fs::write(&f, ids.join("\n"));
              cli(&["delete", &fe_root.display().to_string(), &f.display().to_string()]).map(|_| ())
            }
            _ => httpc::post_json(server.as_ref().unwrap().port, "/delete", &json!({"ids": ids})).map_err(|e| format!("{e:#}")).and_then(|r| if r.status == 200 { Ok(()) } else { Err(format!("{} {}", r.status, String::from_utf8_lossy(&r.body))) }),
          };
          let lib: anyhow::Result<()> = (|| {
            let idx = lib_open(&lib_root)?;
            let mut w = idx.writer()?;
            w.delete_documents(ids)?;
            Ok(())
          })();
          deleted = true;
          if fe.is_ok() != lib.is_ok() {
            out.fail("front-end-and-api-disagree-on-success", format!("{at}: front-end {fe:?}, API {:?}", lib.map_err(|e| format!("{e:#}"))));
            return out;
          }
        }
        Step::Commit | Step::Compact => {
          let compact = matches!(step, Step::Compact);
          if compact && case.front == FrontEnd::Ffi {
            continue;
          }
          let name = if compact { "compact" } else { "commit" };
          let fe: Result<(), String> = match case.front {
            FrontEnd::Cli => cli(&[name, &fe_root.display().to_string()]).map(|_| ()),
            FrontEnd::Http => httpc::request(server.as_ref().unwrap().port, "POST", &format!("/{name}"), &[], b"").map_err(|e| format!("{e:#}")).and_then(|r| if r.status == 200 { Ok(()) } else { Err(format!("{} {}", r.status, String::from_utf8_lossy(&r.body))) }),
            FrontEnd::Ffi => {
              let rc = unsafe { searchlite_ffi::searchlite_commit(ffi.as_ref().unwrap().0) };
              if rc == 0 {
                Ok(())
              } else {
                Err(format!("searchlite_commit returned {rc}"))
              }
            }
          };
          let lib: anyhow::Result<()> = (|| {
            let idx = lib_open(&lib_root)?;
            if compact {
              idx.compact()?;
            } else {
              let mut w = idx.writer()?;
              w.commit()?;
            }
            Ok(())
          })();
          if !compact {
            commits += 1;
          }
          if fe.is_ok() != lib.is_ok() {
            out.fail("front-end-and-api-disagree-on-success", format!("{at}: front-end {fe:?}, API {:?}", lib.map_err(|e| format!("{e:#}"))));
            return out;
          }
        }
        Step::Search(spec) => {
          let mut cursors: (Option<String>, Option<String>) = (None, None);
          for page in 0..(if spec.page2 { 2 } else { 1 }) {
            if page == 1 && (cursors.0.is_none() || cursors.1.is_none()) {
              break;
            }
            let fe_req = request_json(spec, case.front, cursors.0.as_deref());
            let lib_req = request_json(spec, case.front, cursors.1.as_deref());
            let fe: Result<Value, String> = match case.front {
              FrontEnd::Cli => {
                let root = fe_root.display().to_string();
                let node_query = !spec.query.is_string();
                if spec.request_file || node_query {
                  let mut full = fe_req.clone();
                  // a request file is a complete SearchRequest
                  full["return_stored"] = json!(spec.return_stored);
                  let f = files.join(format!("req{i}-{page}.json"));
                  let _ = std::fs::write(&f, full.to_string());
                  cli(&["search", &root, "--request", &f.display().to_string()])
                } else {
                  // `--query=<text>`: a query text may start with '-' (a negated term)
                  let mut args: Vec<String> = vec!["search".into(), root, format!("--query={}", spec.query.as_str().unwrap()), "--limit".into(), spec.limit.to_string(), "--execution".into(), spec.execution.clone()];
                  if spec.return_stored {
                    args.push("--return-stored".into());
                  }
                  if !spec.sort.is_empty() {
                    args.push("--sort".into());
                    args.push(spec.sort.iter().map(|(f, o)| match o { Some(o) => format!("{f}:{o}"), None => f.clone() }).collect::<Vec<_>>().join(","));
                  }
                  if let Some(a) = &spec.aggs {
                    args.push("--aggs".into());
                    args.push(a.to_string());
                  }
                  if let Some(c) = cursors.0.as_deref() {
                    args.push("--cursor".into());
                    args.push(c.to_string());
                  }
                  let refs: Vec<&str> = args.iter().map(|s| s.as_str()).collect();
                  cli(&refs)
                }
                .and_then(|text| serde_json::from_str::<Value>(&text).map_err(|e| format!("CLI output is not JSON: {e}: {text:?}")))
              }
              FrontEnd::Http => httpc::post_json(server.as_ref().unwrap().port, "/search", &fe_req).map_err(|e| format!("{e:#}")).and_then(|r| if r.status == 200 { r.json().ok_or("response is not JSON".to_string()) } else { Err(format!("{} {}", r.status, String::from_utf8_lossy(&r.body))) }),
              FrontEnd::Ffi => {
                let q = cstr(&match &spec.query { Value::String(s) => s.clone(), other => other.to_string() });
                let cur = cursors.0.as_deref().map(cstr);
                let aggs = spec.aggs.as_ref().map(|a| a.to_string());
                let mut buf = vec![0u8; 1 << 18];
                let n = unsafe {
                  searchlite_ffi::searchlite_search(ffi.as_ref().unwrap().0, q.as_ptr(), spec.limit, cur.as_ref().map(|c| c.as_ptr()).unwrap_or(std::ptr::null()), aggs.as_ref().map(|a| a.as_ptr() as *const c_char).unwrap_or(std::ptr::null()), aggs.as_ref().map(|a| a.len()).unwrap_or(0), buf.as_mut_ptr() as *mut c_char, buf.len())
                };
                if n == 0 {
                  Err("searchlite_search returned 0".to_string())
                } else {
                  serde_json::from_slice::<Value>(&buf[..n]).map_err(|e| format!("FFI output is not JSON: {e}"))
                }
              }
            };
            let lib: Result<Value, String> = (|| {
              let idx = lib_open(&lib_root).map_err(|e| format!("{e:#}"))?;
              let reader = idx.reader().map_err(|e| format!("{e:#}"))?;
              let mut r = lib_req.clone();
              if case.front == FrontEnd::Cli {
                r["return_stored"] = json!(spec.return_stored);
              }
              let req: searchlite_core::api::types::SearchRequest = serde_json::from_value(r).map_err(|e| format!("request does not deserialize: {e}"))?;
              if req.limit == 0 {
                return Err("limit 0".to_string());
              }
              let res = reader.search(&req).map_err(|e| format!("{e:#}"))?;
              serde_json::to_value(&res).map_err(|e| e.to_string())
            })();
            match (&fe, &lib) {
              (Err(_), Err(_)) => break,
              (Ok(a), Ok(b)) => {
                if !json_close(a, b) {
                  out.fail("search-response-differs-from-the-api", format!("{at}, page {page}: request {fe_req}: front-end answers {}, the API answers {}", crate::engine::truncate_value(a.clone(), 1500), crate::engine::truncate_value(b.clone(), 1500)));
                  return out;
                }
                cursors = (a.get("next_cursor").and_then(|c| c.as_str()).map(|s| s.to_string()), b.get("next_cursor").and_then(|c| c.as_str()).map(|s| s.to_string()));
                if !spec.sort.is_empty() || spec.aggs.is_some() || page == 1 {
                  rich_search = true;
                }
              }
              _ => {
                out.fail("front-end-and-api-disagree-on-success", format!("{at}, page {page}: request {fe_req}: front-end {:?}, API {:?}", fe.as_ref().map(|_| "ok"), lib.as_ref().map(|_| "ok")));
                return out;
              }
            }
          }
        }
      }
    }
    // the same contents in both directories (seen through the library)
    drop(ffi);
    drop(server);
    out.evals += 1;
    let view = |root: &Path| -> Result<crate::crash::View, String> { lib_open(root).map_err(|e| format!("{e:#}")).and_then(|i| crate::crash::reader_view(&i, 200).map_err(|e| format!("{e:#}"))) };
    match (view(&fe_root), view(&lib_root)) {
      (Ok(a), Ok(b)) => {
        if a != b {
          out.fail("contents-differ-from-the-api", format!("after the script via {:?} the front-end's index holds ids {:?}, the API's {:?} (or stored fields differ)", case.front, a.keys().collect::<Vec<_>>(), b.keys().collect::<Vec<_>>()));
          return out;
        }
      }
      (a, b) => {
        out.fail("index-unreadable-after-script", format!("front-end dir: {:?}; API dir: {:?}", a.err(), b.err()));
        return out;
      }
    }
    if commits >= 2 && deleted && rich_search {
      out.nontrivial(fingerprint_json(case));
    }
    out
  }
}
