//! C21 — highlight fragments and snippets are well-formed for any text.
use proptest::collection::vec;
use proptest::prelude::*;
use proptest::sample::select;
use serde::{Deserialize, Serialize};
use serde_json::{json, Value};

use crate::engine::{fingerprint_json, Ctx, Outcome, Plan, Property, Tier};
use crate::gen::{SchemaSpec, TextSpec};
use crate::sut::{self, StorageKind};

#[derive(Clone, Debug, Serialize, Deserialize)]
pub struct Case {
  pub analyzer: String,
  /// the stored text: words and the separator that follows each
  pub words: Vec<(String, String)>,
  /// leading separator (text may start with punctuation / multi-byte characters)
  pub lead: String,
  /// indices (scaled) of the words the query is built from
  pub picks: Vec<u16>,
  pub shape: String, // term | query_string | phrase | bool
  pub fragment_slack: usize,
  pub number_of_fragments: usize,
  pub tags: (String, String),
  pub legacy_snippet: bool,
  /// other documents in the index (so the hit is found among others)
  pub others: Vec<String>,
  /// 0 = only `body` is highlighted; otherwise a second, optional field `abstract` (sorting before
  /// `body`) is requested with other options: bit 0 = the target document has it, rest = option selector
  #[serde(default)]
  pub second: u8,
}

pub struct C21;

const ASCII: &[&str] = &["rust", "ruby", "fast", "fox", "the", "search", "engine", "a", "Quick", "BROWN", "x1", "go"];
const LATIN: &[&str] = &["café", "naïve", "über", "straße", "élan", "ÉCOLE", "señor", "smörgåsbord", "façade"];
const WIDE: &[&str] = &["東京", "検索", "日本語", "привет", "мир", "λόγος", "한국어", "שלום"];
const SEPS: &[&str] = &[" ", " ", " ", ", ", ". ", " - ", "  ", "! ", "\n", " … ", " — ", " 🚀 ", "。", " é ", " ¿", "» «", " ",];

fn word() -> BoxedStrategy<String> {
  prop_oneof![
    5 => select(ASCII.to_vec()).prop_map(|s| s.to_string()),
    3 => select(LATIN.to_vec()).prop_map(|s| s.to_string()),
    2 => select(WIDE.to_vec()).prop_map(|s| s.to_string()),
  ]
  .boxed()
}

fn schema(analyzer: &str) -> SchemaSpec {
  let analyzers: Vec<Value> = crate::gen::analyzer_menu().into_iter().filter(|(n, _)| n == analyzer).map(|(_, v)| v).collect();
  SchemaSpec {
    doc_id_field: "_id".into(),
    analyzers,
    text: vec![
      TextSpec { name: "abstract".into(), analyzer: analyzer.into(), search_analyzer: None, stored: true, indexed: true, nullable: false, saty: None },
      TextSpec { name: "body".into(), analyzer: analyzer.into(), search_analyzer: None, stored: true, indexed: true, nullable: false, saty: None },
    ],
    keyword: vec![],
    numeric: vec![],
    nested: vec![],
  }
}

fn strip_tags(s: &str, pre: &str, post: &str) -> String {
  s.replace(pre, "").replace(post, "")
}

fn has_tagged_match(s: &str, pre: &str, post: &str) -> bool {
  let mut from = 0;
  while let Some(i) = s[from..].find(pre) {
    let a = from + i + pre.len();
    if let Some(j) = s[a..].find(post) {
      if j > 0 {
        return true;
      }
      from = a;
    } else {
      return false;
    }
  }
  false
}

impl Property for C21 {
  type Case = Case;
  const ID: &'static str = "C21";
  fn rule() -> String {
    "cases = a stored text of 1-60 words over ASCII / Latin-1 / CJK / Cyrillic / Greek / Hangul / Hebrew words joined by separators that include multi-byte punctuation and emoji (optionally starting with one), indexed under one of 3 analyzers among 0-3 other documents; a query built from the text's own words (term, query_string of 1-3 words, phrase of 2-3 adjacent words, bool); highlight options with tags disjoint from the text, number_of_fragments 0..4 and fragment_size = 2 x (byte length of the longest matched surface form) + slack 0..150 (the statement's precondition holds by construction); also the legacy highlight_field snippet. Oracle per hit: every fragment / snippet is non-empty, contains a pre..post pair around non-empty text, is a substring of the stored field text once the tags are removed, has at most fragment_size characters without tags, and there are at most number_of_fragments fragments. Non-trivial = a fragment was returned and the text holds a multi-byte character before the first matched word; distinct = hash of (text, query, options)".into()
  }
  fn assumptions() -> Vec<String> {
    vec![
      "fragment length is judged in characters (lenient: bytes >= characters)".into(),
      "the precondition 'fragment size at least twice the length of the matched text' is enforced by construction with lengths in bytes; for phrases the matched text is the span of the phrase in the stored text".into(),
      "tags never occur in the text; only single-string field values are highlighted (arrays are not highlighted by the engine and not generated)".into(),
    ]
  }
  fn plan(tier: Tier) -> Plan {
    Plan { workers: 16, cases_per_worker: tier.pick(6000, 100000) }
  }
  fn shrink_iters() -> u32 {
    3000
  }
  fn strategy(_tier: Tier) -> BoxedStrategy<Case> {
    (
      select(vec!["default", "default", "uni", "wslow"]),
      vec((word(), select(SEPS.to_vec()).prop_map(|s| s.to_string())), 1..60),
      prop_oneof![3 => Just(String::new()), 1 => select(vec!["é", "🚀 ", "… ", "» ", "東"]).prop_map(|s| s.to_string())],
      vec(any::<u16>(), 1..4),
      select(vec!["term", "term", "query_string", "phrase", "bool"]),
      prop_oneof![3 => 0usize..6, 2 => 0usize..150],
      prop_oneof![1 => Just(0usize), 6 => 1usize..5],
      select(vec![("<em>", "</em>"), ("[[", "]]"), ("<b>", "</b>"), ("{", "}"), ("<<", ">>")]),
      prop::bool::weighted(0.3),
      vec(select(vec!["rust fox", "nothing here", "café 東京 search", "the the the"]).prop_map(|s| s.to_string()), 0..4),
      prop_oneof![1 => Just(0u8), 2 => 1u8..=255],
    )
      .prop_map(|(analyzer, words, lead, picks, shape, fragment_slack, number_of_fragments, tags, legacy_snippet, others, second)| Case {
        analyzer: analyzer.to_string(),
        words,
        lead,
        picks,
        shape: shape.to_string(),
        fragment_slack,
        number_of_fragments,
        tags: (tags.0.to_string(), tags.1.to_string()),
        legacy_snippet,
        others,
        second,
      })
      .boxed()
  }
  fn run(case: &Case, _ctx: &Ctx) -> Outcome {
    let mut out = Outcome::new();
    out.evals = 1;
    if case.words.is_empty() {
      return out;
    }
    // the text and the byte span of every word in it
    let mut text = case.lead.clone();
    let mut spans: Vec<(usize, usize)> = Vec::new();
    for (w, sep) in case.words.iter() {
      let a = text.len();
      text.push_str(w);
      spans.push((a, text.len()));
      text.push_str(sep);
    }
    let n = case.words.len();
    let mut picks: Vec<usize> = case.picks.iter().map(|p| (*p as usize * n) >> 16).collect();
    if picks.is_empty() {
      picks.push(0);
    }
    // query and the byte length of the longest surface form it can match
    let first = picks[0];
    let (query, longest, first_word): (Value, usize, usize) = match case.shape.as_str() {
      "phrase" => {
        let len = 2 + picks.get(1).map(|p| p % 2).unwrap_or(0);
        let a = first.min(n.saturating_sub(len));
        let b = (a + len).min(n);
        let terms: Vec<String> = case.words[a..b].iter().map(|(w, _)| w.clone()).collect();
        // the same word sequence may occur elsewhere with other separators: take the longest span of any
        // occurrence of the sequence (case-insensitively) in the word list
        let lower: Vec<String> = case.words.iter().map(|(w, _)| w.to_lowercase()).collect();
        let want: Vec<String> = terms.iter().map(|w| w.to_lowercase()).collect();
        let mut longest = 0usize;
        for i in 0..n {
          if i + want.len() <= n && lower[i..i + want.len()] == want[..] {
            longest = longest.max(spans[i + want.len() - 1].1 - spans[i].0);
          }
        }
        // single words of the phrase are highlighted too
        for w in terms.iter() {
          longest = longest.max(w.len()).max(w.to_lowercase().len()).max(w.to_uppercase().len());
        }
        (json!({"type": "phrase", "field": "body", "terms": terms, "slop": 0}), longest, a)
      }
      shape => {
        let ws: Vec<String> = picks.iter().map(|p| case.words[*p].0.clone()).collect();
        let longest = ws.iter().map(|w| w.len().max(w.to_lowercase().len()).max(w.to_uppercase().len())).max().unwrap_or(1);
        let q = match shape {
          "term" => json!({"type": "term", "field": "body", "value": ws[0]}),
          "bool" => json!({"type": "bool", "should": ws.iter().map(|w| json!({"type": "term", "field": "body", "value": w})).collect::<Vec<_>>()}),
          _ => json!({"type": "query_string", "query": ws.iter().map(|w| format!("body:{w}")).collect::<Vec<_>>().join(" ")}),
        };
        let longest = if shape == "term" { ws[0].len().max(ws[0].to_lowercase().len()).max(ws[0].to_uppercase().len()) } else { longest };
        (q, longest, *picks.iter().min().unwrap())
      }
    };
    // other occurrences of the picked words may have a different case (and byte length): cover every
    // case variant of every word of the text that equals a picked word case-insensitively
    let mut longest = longest;
    let picked_lower: Vec<String> = match case.shape.as_str() {
      "phrase" => query["terms"].as_array().unwrap().iter().map(|t| t.as_str().unwrap().to_lowercase()).collect(),
      "term" => vec![case.words[first].0.to_lowercase()],
      _ => picks.iter().map(|p| case.words[*p].0.to_lowercase()).collect(),
    };
    for (w, _) in case.words.iter() {
      if picked_lower.contains(&w.to_lowercase()) {
        longest = longest.max(w.len());
      }
    }
    let fragment_size = 2 * longest.max(1) + case.fragment_slack;
    let (pre, post) = (&case.tags.0, &case.tags.1);

    let schema = schema(&case.analyzer);
    let scratch = sut::Scratch::new("c21");
    let root = scratch.sub("idx");
    let storage = sut::make_storage(&root, StorageKind::Mem);
    let idx = match sut::create_index(&root, &schema, sut::default_options(&root, StorageKind::Mem), storage) {
      Ok(i) => i,
      Err(e) => {
        out.fail("create-failed", format!("{e:#}"));
        return out;
      }
    };
    let build = || -> anyhow::Result<()> {
      let mut w = idx.writer()?;
      for (i, o) in case.others.iter().enumerate() {
        let mut d = json!({"_id": format!("o{i}"), "body": o});
        if case.second != 0 && i % 2 == 1 {
          d["abstract"] = json!(format!("abstract: {o}"));
        }
        w.add_document(&sut::document(&d))?;
      }
      let mut d = json!({"_id": "target", "body": text});
      if case.second & 1 == 1 {
        d["abstract"] = json!(format!("note: {text}"));
      }
      w.add_document(&sut::document(&d))?;
      w.commit()?;
      Ok(())
    };
    if let Err(e) = build() {
      out.fail("corpus-build-failed", format!("{e:#}"));
      return out;
    }
    let reader = match idx.reader() {
      Ok(r) => r,
      Err(e) => {
        out.fail("reader-open-failed", format!("{e:#}"));
        return out;
      }
    };
    let mut req = json!({"query": query, "limit": 10, "execution": "bm25", "return_stored": true,
      "highlight": {"fields": {"body": {"pre_tag": pre, "post_tag": post, "fragment_size": fragment_size, "number_of_fragments": case.number_of_fragments}}}});
    // options of the second field differ in every respect
    let (pre2, post2) = ("<a>".to_string(), "</a>".to_string());
    let size2 = fragment_size + 37;
    let nfrag2 = 1 + (case.second as usize >> 1) % 3;
    if case.second != 0 {
      req["highlight"]["fields"]["abstract"] = json!({"pre_tag": pre2, "post_tag": post2, "fragment_size": size2, "number_of_fragments": nfrag2});
      out.class("two-fields-requested");
    }
    if case.legacy_snippet {
      req["highlight_field"] = json!("body");
    }
    let res = match sut::search(&reader, req.clone()) {
      Ok(r) => r,
      Err(e) => {
        out.fail("highlight-request-failed", format!("{e:#}; request {req}"));
        return out;
      }
    };
    out.class(format!("shape:{}", case.shape));
    let multibyte_before = text[..spans[first_word].0].chars().any(|c| c.len_utf8() > 1);
    let mut saw_fragment = false;
    for h in res.hits.iter() {
      let stored_of = |name: &str| h.fields.as_ref().and_then(|f| f.get(name)).and_then(|b| b.as_str().map(|s| s.to_string()).or_else(|| b.get(0).and_then(|x| x.as_str()).map(|s| s.to_string()))).unwrap_or_default();
      let body_stored = stored_of("body");
      if let Some(hl) = &h.highlights {
        for (field, frags) in hl.iter() {
          // each field is judged against the options requested for that field
          let second_field = field == "abstract";
          let stored = if second_field { stored_of("abstract") } else { body_stored.clone() };
          let (pre, post, fragment_size, number_of_fragments) = if second_field { (&pre2, &post2, size2, nfrag2) } else { (pre, post, fragment_size, case.number_of_fragments) };
          let ctxt = || format!("doc {} field {field} stored text {:?}; query {}; pre {:?} post {:?} fragment_size {} number_of_fragments {} analyzer {}; fields requested: {}", h.doc_id, stored, query, pre, post, fragment_size, number_of_fragments, case.analyzer, if case.second != 0 { "abstract and body" } else { "body" });
          if second_field && case.second == 0 {
            out.fail("highlight-for-a-field-not-requested", format!("{frags:?}; {}", ctxt()));
            return out;
          }
          if frags.len() > number_of_fragments {
            out.fail("too-many-fragments", format!("{} fragments for field {field}: {frags:?}; {}", frags.len(), ctxt()));
            return out;
          }
          for f in frags.iter() {
            saw_fragment = true;
            if f.is_empty() {
              out.fail("empty-fragment", format!("fragments {frags:?}; {}", ctxt()));
              return out;
            }
            if !has_tagged_match(f, pre, post) {
              out.fail("fragment-without-tagged-match", format!("fragment {f:?}; {}", ctxt()));
              return out;
            }
            let bare = strip_tags(f, pre, post);
            if !stored.contains(&bare) {
              out.fail("fragment-is-not-a-substring", format!("fragment {f:?} without tags {bare:?}; {}", ctxt()));
              return out;
            }
            if bare.chars().count() > fragment_size {
              out.fail("fragment-too-long", format!("fragment {f:?} has {} characters without tags; {}", bare.chars().count(), ctxt()));
              return out;
            }
          }
        }
      }
      if let Some(sn) = &h.snippet {
        saw_fragment = true;
        let stored = body_stored.clone();
        let ctxt = || format!("doc {} legacy snippet of body, stored text {:?}; query {}; analyzer {}", h.doc_id, stored, query, case.analyzer);
        // legacy snippet: tags "**", fragment size 120
        if sn.is_empty() {
          out.fail("empty-snippet", ctxt());
          return out;
        }
        if 2 * longest <= 120 {
          if !has_tagged_match(sn, "**", "**") {
            out.fail("snippet-without-tagged-match", format!("snippet {sn:?}; {}", ctxt()));
            return out;
          }
          let bare = sn.replace("**", "");
          if !stored.contains(&bare) {
            out.fail("snippet-is-not-a-substring", format!("snippet {sn:?}; {}", ctxt()));
            return out;
          }
          if bare.chars().count() > 120 {
            out.fail("snippet-too-long", format!("snippet {sn:?}; {}", ctxt()));
            return out;
          }
        }
      }
    }
    if saw_fragment {
      out.class("fragment-returned");
      if multibyte_before {
        out.nontrivial(fingerprint_json(&(&text, &query, fragment_size, case.number_of_fragments)));
      }
    } else {
      out.class("no-fragment");
    }
    out
  }
}
