//! C09 — pruned top-k (wand / bmw) equals exhaustive top-k (bm25): differential on one reader.
use proptest::collection::vec;
use proptest::prelude::*;
use proptest::sample::select;
use serde::{Deserialize, Serialize};
use serde_json::{json, Value};

use crate::engine::{fingerprint_json, Ctx, Outcome, Plan, Property, Tier};
use crate::props::c08;
use crate::qgen::QGen;
use crate::rank::{self, hits};
use crate::scoreworld::{self, World, WorldOpts};
use crate::sut;

#[derive(Clone, Debug, Serialize, Deserialize)]
pub struct Q {
  pub query: Value,
  pub limit: usize,
  pub filter: Option<Value>,
  pub strategy: String,
  pub block_size: Option<usize>,
}

#[derive(Clone, Debug, Serialize, Deserialize)]
pub struct Case {
  pub world: World,
  pub queries: Vec<Q>,
}

pub struct C09;

pub const SIG_HOOKS: &str = "pruning-ignores-custom-score-adjustment";

fn has_type(q: &Value, tys: &[&str]) -> bool {
  match q {
    Value::Object(m) => m.get("type").and_then(|t| t.as_str()).map(|t| tys.contains(&t)).unwrap_or(false) || m.values().any(|v| has_type(v, tys)),
    Value::Array(a) => a.iter().any(|v| has_type(v, tys)),
    _ => false,
  }
}

pub fn queries(n: usize) -> BoxedStrategy<Vec<Q>> {
  let schema = scoreworld::schema();
  let mut g = QGen::new(&schema, 15, false);
  g.phrases = true;
  let filt = c08::root_filter(&schema, 1);
  let q = (g.tree(2), 1usize..50, proptest::option::weighted(0.25, filt), select(vec!["wand", "bmw", "bmw"]), proptest::option::of(prop_oneof![1usize..8, 1usize..300]))
    .prop_map(|(query, limit, filter, strategy, block_size)| Q { query, limit, filter, strategy: strategy.to_string(), block_size });
  vec(q, n).boxed()
}

impl Property for C09 {
  type Case = Case;
  const ID: &'static str = "C09";
  fn rule() -> String {
    "cases = a corpus of 30-2500 short documents over a 15-word vocabulary (long posting lists) in 1-3 segments with optional deletions and one of four (k1,b) settings, and 12 scored query trees (terms, bool, dis_max+tie_breaker, boosts incl. 0, multi_match, prefix/wildcard/regex, function_score, script_score, rank_feature, constant_score, phrases) each with limit 1..50, optional filter, execution wand|bmw and bmw_block_size 1..300; the pruned response is compared with execution=bm25 on the same reader: same length, position-wise scores, per-id scores, membership differing only among hits tied with the k-th score; total_hits_estimate(pruned) <= total_hits_estimate(bm25). Non-trivial = more matches than the limit, >=2 scored terms and a posting list longer than the block size; distinct = hash of (query, limit, strategy, block, corpus size)".into()
  }
  fn assumptions() -> Vec<String> {
    vec!["scores are compared with relative tolerance 1e-5 (f32 sums are accumulated in different orders by the strategies)".into()]
  }
  fn plan(tier: Tier) -> Plan {
    Plan { workers: 16, cases_per_worker: tier.pick(150, 4000) }
  }
  fn shrink_iters() -> u32 {
    400
  }
  fn strategy(tier: Tier) -> BoxedStrategy<Case> {
    let small = WorldOpts { min_docs: 30, max_docs: 300, max_commits: 3, deletes: true, ties: false, vocab: 15 };
    let large = WorldOpts { min_docs: 600, max_docs: tier.pick(1500, 2500), max_commits: 3, deletes: true, ties: false, vocab: 15 };
    let w = prop_oneof![5 => scoreworld::world(small), 1 => scoreworld::world(large)];
    (w, queries(12)).prop_map(|(world, queries)| Case { world, queries }).boxed()
  }
  fn run(case: &Case, ctx: &Ctx) -> Outcome {
    let mut out = Outcome::new();
    let built = match case.world.build("c09") {
      Ok(b) => b,
      Err(e) => {
        out.fail("corpus-build-failed", format!("{e:#}"));
        return out;
      }
    };
    let reader = match built.idx.reader() {
      Ok(r) => r,
      Err(e) => {
        out.fail("reader-open-failed", format!("{e:#}"));
        return out;
      }
    };
    let known_hooks = ctx.is_known(Self::ID, SIG_HOOKS);
    for q in case.queries.iter() {
      out.evals += 1;
      let mut base = json!({"query": q.query, "limit": q.limit});
      if let Some(f) = &q.filter {
        base["filter"] = f.clone();
      }
      let mut exhaustive = base.clone();
      exhaustive["execution"] = json!("bm25");
      let mut pruned = base.clone();
      pruned["execution"] = json!(q.strategy);
      if let Some(b) = q.block_size {
        pruned["bmw_block_size"] = json!(b);
      }
      let re = match sut::search(&reader, exhaustive.clone()) {
        Ok(r) => r,
        Err(e) => {
          out.fail("search-error", format!("bm25 execution failed: {e:#}; request {exhaustive}"));
          return out;
        }
      };
      let rp = match sut::search(&reader, pruned.clone()) {
        Ok(r) => r,
        Err(e) => {
          out.fail("search-error", format!("{} execution failed although bm25 succeeded: {e:#}; request {pruned}", q.strategy));
          return out;
        }
      };
      let (he, hp) = (hits(&re), hits(&rp));
      let custom = has_type(&q.query, &["function_score", "script_score", "rank_feature", "constant_score"]);
      if custom {
        out.class("custom-scoring");
      }
      let mut problem = rank::same_top_k(&hp, &he).err();
      if problem.is_none() && rp.total_hits_estimate > re.total_hits_estimate {
        problem = Some(format!("total_hits_estimate {} under {} exceeds {} under bm25", rp.total_hits_estimate, q.strategy, re.total_hits_estimate));
      }
      if let Some(p) = problem {
        let detail = format!("{} vs bm25: {p}; request {pruned}; pruned {:?}; exhaustive {:?}", q.strategy, hp.iter().take(8).collect::<Vec<_>>(), he.iter().take(8).collect::<Vec<_>>());
        if custom {
          out.fail(SIG_HOOKS, detail);
          if known_hooks {
            out.excluded_known += 1;
            continue;
          }
        } else {
          out.fail("pruned-differs-from-exhaustive", detail);
        }
        return out;
      }
      let matches = re.total_hits_estimate as usize;
      if matches > q.limit {
        out.class("more-matches-than-limit");
        let block = q.block_size.unwrap_or(128);
        if case.world.docs.len() > block {
          out.nontrivial(fingerprint_json(&(&q.query, q.limit, &q.strategy, q.block_size, case.world.docs.len())));
        }
      }
    }
    out
  }
}
