#!/bin/bash
# tools/mutwt.sh <patch.diff> <ID> [extra check args]
# Development helper: runs a check against a patched scratch worktree of /repo (/tmp/mrepo) through a
# scratch copy of the harness (/tmp/mh), so that /repo itself stays untouched while other checks run.
# (The registered way of running a check against a change is tools/mut.sh: git -C /repo apply.)
set -u
PATCH="$(realpath "$1")"; ID="$2"; shift 2
MR=/tmp/mrepo; MH=/tmp/mh
HEAD=$(git -C /repo rev-parse HEAD)
if [ ! -d $MR ]; then git -C /repo worktree add --detach $MR HEAD >/dev/null 2>&1 || exit 3; fi
git -C $MR checkout -q -- . ; git -C $MR clean -fdq -- searchlite-core searchlite-http searchlite-ffi searchlite-cli
git -C $MR checkout -q --detach $HEAD
git -C $MR apply "$PATCH" || { echo "patch does not apply" >&2; exit 3; }
mkdir -p $MH/root
rsync -a --delete /verif/harness/src /verif/harness/Cargo.lock $MH/harness/ 2>/dev/null || { mkdir -p $MH/harness; rsync -a --delete /verif/harness/src /verif/harness/Cargo.lock $MH/harness/; }
[ -d /verif/harness/fuzz ] && true
sed "s#/repo/#$MR/#g" /verif/harness/Cargo.toml > $MH/harness/Cargo.toml
mkdir -p $MH/harness/.cargo
sed "s#/verif/target#$MH/target#" /verif/harness/.cargo/config.toml > $MH/harness/.cargo/config.toml
rsync -a --delete /verif/regressions $MH/root/ 2>/dev/null
cp /verif/known_findings.txt $MH/root/
rm -rf $MH/root/replays
FEATURES=""; case "$ID" in C29) FEATURES="--features vectors";; esac
( cd $MH/harness && CARGO_NET_OFFLINE=true cargo build --release --bin check $FEATURES ) > $MH/build.log 2>&1 || { echo "mutant build failed"; tail -20 $MH/build.log; git -C $MR checkout -q -- .; exit 2; }
if [ "$ID" = C25 ]; then
  ( CARGO_NET_OFFLINE=true cargo build --release --offline --manifest-path $MR/Cargo.toml -p searchlite-cli --target-dir $MH/target/repo-bins ) >> $MH/build.log 2>&1 || { echo "mutant CLI build failed"; tail -20 $MH/build.log; git -C $MR checkout -q -- .; exit 2; }
  export VERIF_CLI_BIN=$MH/target/repo-bins/release/searchlite-cli
fi
VERIF_ROOT=$MH/root VERIF_REPO=$MR $MH/target/release/check "$ID" "$@"
rc=$?
git -C $MR checkout -q -- . ; git -C $MR clean -fdq -- searchlite-core searchlite-http searchlite-ffi searchlite-cli
echo "exit=$rc"
