//! The HTTP service in-process (its own tokio runtime on a loopback port) and a raw HTTP/1.1 client
//! over std TcpStream (one connection per request) that can also send malformed requests.
use std::io::{Read, Write};
use std::net::{SocketAddr, TcpListener, TcpStream};
use std::path::Path;
use std::time::{Duration, Instant};

use clap::Parser;
use searchlite_http::ServeArgs;

pub struct Server {
  rt: Option<tokio::runtime::Runtime>,
  pub port: u16,
}

impl Drop for Server {
  fn drop(&mut self) {
    if let Some(rt) = self.rt.take() {
      // (the next case finds its own service by its listening socket, so a slow teardown cannot be mistaken for it)
      rt.shutdown_background();
    }
  }
}

#[allow(dead_code)]
fn free_port() -> std::io::Result<u16> {
  let l = TcpListener::bind("127.0.0.1:0")?;
  Ok(l.local_addr()?.port())
}

/// TCP ports this process is listening on (sockets among /proc/self/fd that /proc/net/tcp lists in
/// state LISTEN). The service is started on port 0 and found through this, so that no other process
/// or worker can end up on the port the harness thinks is its own.
fn listening_ports_of_self() -> std::collections::BTreeSet<u16> {
  // socket file descriptors of this process that are in listening state, and the port each is bound to
  let mut ports = std::collections::BTreeSet::new();
  if let Ok(rd) = std::fs::read_dir("/proc/self/fd") {
    for e in rd.flatten() {
      let is_socket = std::fs::read_link(e.path()).map(|t| t.to_string_lossy().starts_with("socket:[")).unwrap_or(false);
      if !is_socket {
        continue;
      }
      let Ok(fd) = e.file_name().to_string_lossy().parse::<i32>() else { continue };
      unsafe {
        let mut listening: libc::c_int = 0;
        let mut len = std::mem::size_of::<libc::c_int>() as libc::socklen_t;
        if libc::getsockopt(fd, libc::SOL_SOCKET, libc::SO_ACCEPTCONN, &mut listening as *mut _ as *mut libc::c_void, &mut len) != 0 || listening == 0 {
          continue;
        }
        let mut addr: libc::sockaddr_in = std::mem::zeroed();
        let mut alen = std::mem::size_of::<libc::sockaddr_in>() as libc::socklen_t;
        if libc::getsockname(fd, &mut addr as *mut _ as *mut libc::sockaddr, &mut alen) == 0 && addr.sin_family == libc::AF_INET as libc::sa_family_t {
          ports.insert(u16::from_be(addr.sin_port));
        }
      }
    }
  }
  ports
}

impl Server {
  /// Starts `searchlite-http` on the index directory; `extra` are further command-line arguments.
  pub fn start(index: &Path, extra: &[&str]) -> anyhow::Result<Server> {
    // one start-up at a time per process: between picking a free port and the service binding it no
    // other worker may pick the same one (its health probe would then reach the wrong server)
    static STARTUP: std::sync::Mutex<()> = std::sync::Mutex::new(());
    let _one_at_a_time = STARTUP.lock().unwrap_or_else(|e| e.into_inner());
    for _attempt in 0..8 {
      let before = listening_ports_of_self();
      let mut argv: Vec<String> = vec!["searchlite-http".into(), "--index".into(), index.display().to_string(), "--bind".into(), "127.0.0.1:0".into(), "--shutdown-grace-secs".into(), "0".into()];
      argv.extend(extra.iter().map(|s| s.to_string()));
      let args = ServeArgs::try_parse_from(argv).map_err(|e| anyhow::anyhow!("server arguments: {e}"))?;
      let rt = tokio::runtime::Builder::new_multi_thread().worker_threads(2).enable_all().build()?;
      let failed = std::sync::Arc::new(std::sync::atomic::AtomicBool::new(false));
      let f2 = failed.clone();
      rt.spawn(async move {
        if searchlite_http::run(args).await.is_err() {
          f2.store(true, std::sync::atomic::Ordering::SeqCst);
        }
      });
      let t0 = Instant::now();
      let mut srv = Server { rt: Some(rt), port: 0 };
      loop {
        if failed.load(std::sync::atomic::Ordering::SeqCst) {
          break; // startup failure: try again
        }
        if srv.port == 0 {
          // the one listening socket this process did not have before is the service's
          if let Some(p) = listening_ports_of_self().difference(&before).next() {
            srv.port = *p;
          }
        }
        if srv.port != 0 {
          if let Ok(r) = request(srv.port, "GET", "/healthz", &[], b"") {
            if r.status == 200 {
              return Ok(srv);
            }
          }
        }
        if t0.elapsed() > Duration::from_secs(4) {
          break;
        }
        std::thread::sleep(Duration::from_millis(2));
      }
    }
    anyhow::bail!("the HTTP service did not come up")
  }
}

#[derive(Debug, Clone)]
pub struct Resp {
  pub status: u16,
  pub headers: Vec<(String, String)>,
  pub body: Vec<u8>,
}

impl Resp {
  pub fn json(&self) -> Option<serde_json::Value> {
    serde_json::from_slice(&self.body).ok()
  }
  pub fn header(&self, name: &str) -> Option<&str> {
    self.headers.iter().find(|(k, _)| k.eq_ignore_ascii_case(name)).map(|(_, v)| v.as_str())
  }
}

fn connect(port: u16) -> std::io::Result<TcpStream> {
  let addr: SocketAddr = format!("127.0.0.1:{port}").parse().unwrap();
  let s = TcpStream::connect_timeout(&addr, Duration::from_secs(5))?;
  s.set_read_timeout(Some(Duration::from_secs(40)))?;
  s.set_write_timeout(Some(Duration::from_secs(10)))?;
  s.set_nodelay(true)?;
  Ok(s)
}

/// Sends arbitrary bytes and returns whatever comes back until the peer closes (or the read times out).
pub fn raw(port: u16, bytes: &[u8], read_timeout: Duration) -> std::io::Result<Vec<u8>> {
  let mut s = connect(port)?;
  s.set_read_timeout(Some(read_timeout))?;
  // the server may answer (and close) before it has read everything: a failing write is not an error here
  let _ = s.write_all(bytes);
  let _ = s.flush();
  let mut out = Vec::new();
  let mut buf = [0u8; 8192];
  loop {
    match s.read(&mut buf) {
      Ok(0) => break,
      Ok(n) => {
        out.extend_from_slice(&buf[..n]);
        if let Some(r) = parse_response(&out) {
          if r.1 {
            break;
          }
        }
      }
      Err(_) => break,
    }
  }
  Ok(out)
}

/// Parses an HTTP/1.1 response; the flag says whether the body is complete.
pub fn parse_response(data: &[u8]) -> Option<(Resp, bool)> {
  let head_end = data.windows(4).position(|w| w == b"\r\n\r\n")?;
  let head = std::str::from_utf8(&data[..head_end]).ok()?;
  let mut lines = head.split("\r\n");
  let status_line = lines.next()?;
  let mut parts = status_line.splitn(3, ' ');
  let version = parts.next()?;
  if !version.starts_with("HTTP/1.") {
    return None;
  }
  let status: u16 = parts.next()?.parse().ok()?;
  let mut headers = Vec::new();
  for l in lines {
    let (k, v) = l.split_once(':')?;
    headers.push((k.trim().to_string(), v.trim().to_string()));
  }
  let rest = &data[head_end + 4..];
  let get = |name: &str| headers.iter().find(|(k, _)| k.eq_ignore_ascii_case(name)).map(|(_, v)| v.clone());
  if let Some(cl) = get("content-length") {
    let n: usize = cl.parse().ok()?;
    let done = rest.len() >= n;
    let body = rest[..n.min(rest.len())].to_vec();
    return Some((Resp { status, headers, body }, done));
  }
  if get("transfer-encoding").map(|v| v.to_ascii_lowercase().contains("chunked")).unwrap_or(false) {
    let mut body = Vec::new();
    let mut p = 0usize;
    loop {
      let Some(le) = rest[p..].windows(2).position(|w| w == b"\r\n") else { return Some((Resp { status, headers, body }, false)) };
      let size_txt = std::str::from_utf8(&rest[p..p + le]).ok()?;
      let size = usize::from_str_radix(size_txt.split(';').next()?.trim(), 16).ok()?;
      p += le + 2;
      if size == 0 {
        return Some((Resp { status, headers, body }, true));
      }
      if rest.len() < p + size + 2 {
        return Some((Resp { status, headers, body }, false));
      }
      body.extend_from_slice(&rest[p..p + size]);
      p += size + 2;
    }
  }
  // no length: the body ends when the connection closes (or there is none: 204 / 304 / HEAD)
  Some((Resp { status, headers, body: rest.to_vec() }, status == 204 || status == 304))
}

pub fn request(port: u16, method: &str, path: &str, headers: &[(&str, &str)], body: &[u8]) -> anyhow::Result<Resp> {
  let mut req = format!("{method} {path} HTTP/1.1\r\nHost: 127.0.0.1:{port}\r\nConnection: close\r\nContent-Length: {}\r\n", body.len());
  for (k, v) in headers {
    req.push_str(&format!("{k}: {v}\r\n"));
  }
  req.push_str("\r\n");
  let mut bytes = req.into_bytes();
  bytes.extend_from_slice(body);
  let out = raw(port, &bytes, Duration::from_secs(40))?;
  match parse_response(&out) {
    Some((r, _)) => Ok(r),
    None => anyhow::bail!("no well-formed HTTP response ({} bytes received: {:?})", out.len(), String::from_utf8_lossy(&out[..out.len().min(120)])),
  }
}

pub fn post_json(port: u16, path: &str, body: &serde_json::Value) -> anyhow::Result<Resp> {
  request(port, "POST", path, &[("Content-Type", "application/json")], body.to_string().as_bytes())
}
