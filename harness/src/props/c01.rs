//! C01 — commits are atomic and durable across crashes; C02 — queued operations survive crashes
//! exactly once. Both run generated histories on the real `FsStorage` with the filesystem trace hook
//! installed, rebuild what a crash at a chosen point could leave on disk, and recover from it.
use std::path::Path;

use proptest::collection::vec;
use proptest::prelude::*;
use serde::{Deserialize, Serialize};

use crate::crash::{self, model_view, CrashPlan, FsModel, Op, Persist, Round, View};
use crate::engine::{fingerprint, Ctx, Outcome, Plan, Property, Tier};
use crate::gen::{self, DocOpts, TextOpts};
use crate::model::{apply_ops, Contents, QOp};
use crate::sut::Scratch;

#[derive(Clone, Debug, Serialize, Deserialize)]
pub struct Case {
  pub rounds: Vec<Round>,
}

fn op_strategy() -> BoxedStrategy<Op> {
  let s = crash::schema();
  let docopts = DocOpts { text: TextOpts { max_words: 3, odd: false, vocab: 8 }, max_multi: 2, absent: 3, max_nested_objs: 0, null_items: false, extremes: false };
  prop_oneof![
    10 => (gen::doc_id(6), gen::doc_body(&s, docopts)).prop_map(|(i, b)| Op::Add(i, b)),
    3 => vec(gen::doc_id(7), 1..3).prop_map(Op::Delete),
    5 => Just(Op::Commit),
    1 => Just(Op::Rollback),
    2 => Just(Op::DropWriter),
    2 => Just(Op::Compact),
  ]
  .boxed()
}

fn crash_plan() -> BoxedStrategy<CrashPlan> {
  (prop_oneof![3 => Just(1u8), 1 => Just(2u8), 2 => Just(0u8)], any::<u32>(), any::<u16>(), any::<u32>(), prop_oneof![6 => Just(0u8), 1 => Just(1u8), 1 => Just(2u8)])
    .prop_map(|(region, at, dir_cut, file_seed, mode)| CrashPlan { region, at, persist: Persist { dir_cut, file_seed, mode } })
    .boxed()
}

fn describe_ops(ops: &[Op]) -> Vec<&'static str> {
  ops.iter().map(|o| o.label()).collect()
}

fn ids(v: &View) -> Vec<&String> {
  v.keys().collect()
}

/// One crash + recovery. Returns the recovered (contents, queue) for the next round.
#[allow(clippy::too_many_arguments)]
fn crash_and_recover(out: &mut Outcome, root: &Path, traced: &crash::Traced, start: &FsModel, s0: &Contents, q0: &[QOp], plan: &CrashPlan, ops: &[Op], judge_c01: bool, judge_c02: bool) -> Option<(Contents, Vec<QOp>)> {
  let c = traced.pick(plan);
  let fs = traced.fs_at(start, c);
  let image = fs.image(plan.persist);
  if crash::materialize(root, &image).is_err() {
    out.fail("harness-materialize-failed", "cannot write the crash image".to_string());
    return None;
  }
  let allowed = traced.allowed(c, s0, q0);
  out.evals += 1;
  let ctxt = |extra: &str| format!("history {:?}, crash after {c} of {} trace events{}, persistence {:?}{extra}", describe_ops(ops), traced.events.len(), allowed.in_flight.map(|l| format!(" (inside {l})")).unwrap_or_default(), plan.persist);
  let n = 40;
  let idx = match crash::open_index(root) {
    Ok(i) => i,
    Err(e) => {
      if judge_c01 {
        out.fail("open-fails-after-crash", format!("Index::open fails: {e:#}; {}", ctxt("")));
      }
      return None;
    }
  };
  let got = match crash::reader_view(&idx, n) {
    Ok(v) => v,
    Err(e) => {
      if judge_c01 {
        out.fail("search-fails-after-crash", format!("reader/search fails: {e:#}; {}", ctxt("")));
      }
      return None;
    }
  };
  let state = allowed.states.iter().find(|s| model_view(s) == got).cloned();
  let Some(state) = state else {
    if judge_c01 {
      let lost = allowed.in_flight.is_none();
      out.fail(
        if lost { "committed-state-lost-or-changed" } else { "contents-are-not-a-committed-state" },
        format!("after recovery the index holds ids {:?}; allowed: {:?}; {}", ids(&got), allowed.states.iter().map(|s| model_view(s).keys().cloned().collect::<Vec<_>>()).collect::<Vec<_>>(), ctxt("")),
      );
    } else {
      out.class("c01-violation-seen-not-judged-here");
    }
    return None;
  };
  if allowed.in_flight == Some("commit") || allowed.in_flight == Some("compact") {
    out.class(format!("crash-inside-{}", allowed.in_flight.unwrap()));
    if fs.unsynced() {
      out.nontrivial(fingerprint(&(format!("{ops:?}"), c, plan.persist.dir_cut, plan.persist.file_seed, plan.persist.mode)));
    }
  }
  // the queue a new writer recovers
  let recovered = match crash::recovered_queue(root) {
    Ok(q) => q,
    Err(e) => {
      if judge_c02 {
        out.fail("log-unreadable-after-crash", format!("{e:#}; {}", ctxt("")));
      }
      return None;
    }
  };
  let published = allowed.in_flight == Some("commit") && allowed.states.len() == 2 && model_view(&state) == model_view(&allowed.states[1]) && model_view(&allowed.states[0]) != model_view(&allowed.states[1]);
  let is_prefix = recovered.len() <= allowed.queue.len() && recovered[..] == allowed.queue[..recovered.len()];
  // a commit in flight whose result equals the state before it: cannot tell whether it was published
  let ambiguous = allowed.in_flight == Some("commit") && allowed.states.len() == 2 && model_view(&allowed.states[0]) == model_view(&allowed.states[1]);
  let ok = if ambiguous {
    recovered.is_empty() || (is_prefix && recovered.len() >= allowed.min_len)
  } else if published {
    // the commit landed: its operations are either gone from the log or all there (re-applying them changes nothing)
    recovered.is_empty() || (is_prefix && recovered.len() == allowed.queue.len())
  } else {
    (is_prefix && recovered.len() >= allowed.min_len) || (allowed.also_empty && recovered.is_empty() && allowed.in_flight == Some("rollback"))
  };
  if !ok && judge_c02 {
    let show = |q: &[QOp]| q.iter().map(|o| match o { QOp::Add(i, _) => format!("add {i}"), QOp::Del(i) => format!("del {i}") }).collect::<Vec<_>>();
    let sig = if !is_prefix { "recovered-queue-is-not-a-prefix" } else if recovered.len() < allowed.min_len { "synced-operation-lost" } else { "recovered-queue-inconsistent-with-commit" };
    out.fail(sig, format!("a new writer recovers {:?}; queued at the crash: {:?}, of which the first {} were followed by a successful log sync; {}", show(&recovered), show(&allowed.queue), allowed.min_len, ctxt("")));
    return None;
  }
  if !ok {
    out.class("c02-violation-seen-not-judged-here");
    return None;
  }
  if judge_c02 && !allowed.queue.is_empty() {
    out.class(if recovered.len() < allowed.queue.len() { "queue-recovered-partially" } else { "queue-recovered-fully" });
  }
  Some((state, recovered))
}

fn run_chain(case: &Case, judge_c01: bool, judge_c02: bool, tag: &str) -> Outcome {
  let mut out = Outcome::new();
  let scratch = Scratch::new(tag);
  let root = scratch.sub("idx");
  let mut s = Contents::new();
  let mut q: Vec<QOp> = Vec::new();
  let mut torn_rounds = 0usize;
  for (ri, round) in case.rounds.iter().enumerate() {
    if ri == 0 {
      // create the (empty) index first: the model of the disk starts from it
      if let Err(e) = crash::run_traced(&root, &s, &q, &[]) {
        out.evals += 1;
        out.fail("index-create-failed", format!("{e:#}"));
        return out;
      }
    }
    let start = FsModel::from_dir(&root);
    let traced = match crash::run_traced(&root, &s, &q, &round.ops) {
      Ok(t) => t,
      Err(e) => {
        out.evals += 1;
        // without any crash in this round's past this is a plain failure of a valid call
        let sig = if ri == 0 { "call-failed-without-crash" } else { "call-fails-after-recovery" };
        if (ri == 0) || judge_c02 {
          out.fail(sig, format!("round {ri}: history {:?} failed: {e:#}", describe_ops(&round.ops)));
        }
        return out;
      }
    };
    if round.crashes.is_empty() {
      break;
    }
    let last = ri + 1 == case.rounds.len();
    // all plans but the last are explored and thrown away; the last one carries the chain on
    let mut next = None;
    for (pi, plan) in round.crashes.iter().enumerate() {
      let r = crash_and_recover(&mut out, &root, &traced, &start, &s, &q, plan, &round.ops, judge_c01, judge_c02);
      if out.failed() {
        return out;
      }
      if pi + 1 == round.crashes.len() {
        next = r;
      }
    }
    let Some((s2, q2)) = next else { return out };
    if q2.len() < traced.allowed(traced.pick(round.crashes.last().unwrap()), &s, &q).queue.len() {
      torn_rounds += 1;
    }
    s = s2;
    q = q2;
    if last && judge_c02 {
      // finally: a new writer commits what it recovered, on the recovered directory
      out.evals += 1;
      let res: anyhow::Result<View> = (|| {
        let idx = crash::open_index(&root)?;
        let mut w = idx.writer()?;
        w.commit()?;
        drop(w);
        crash::reader_view(&idx, 40)
      })();
      let mut want = s.clone();
      apply_ops(&mut want, &q);
      match res {
        Err(e) => {
          out.fail("commit-fails-after-recovery", format!("after {} crash/restart rounds: writer + commit fails: {e:#}", ri + 1));
          return out;
        }
        Ok(v) => {
          if v != model_view(&want) {
            out.fail("recovered-commit-differs-from-crash-free-run", format!("after {} crash/restart rounds committing the recovered queue gives ids {:?}, the model gives {:?}", ri + 1, ids(&v), model_view(&want).keys().collect::<Vec<_>>()));
            return out;
          }
        }
      }
      if (!q.is_empty() && torn_rounds > 0) || (case.rounds.len() >= 2 && !q.is_empty()) {
        out.nontrivial(fingerprint(&format!("{:?}", case.rounds)));
      }
    }
  }
  out.class(format!("rounds:{}", case.rounds.len()));
  out
}

pub struct C01;

impl Property for C01 {
  type Case = Case;
  const ID: &'static str = "C01";
  const LEVEL: &'static str = "fault_enumeration";
  fn rule() -> String {
    "cases = a history of 4-25 calls (add, delete, commit, rollback, drop writer, compact) on the real FsStorage with the filesystem trace hook installed, and crash plans: a crash point (biased to lie inside commit / compaction / rollback, or right after a call returned) and a persistence choice (directory operations since the last directory fsync survive as a prefix; every file keeps a prefix of its un-fsynced writes, the last possibly torn; or nothing / everything un-fsynced survives); quick 24 plans per history, thorough 200. For each plan the crash image is rebuilt from the real trace, written to the same path, and opened: Index::open and a search must succeed and the contents must equal the state after the last commit that returned, or - for a commit in flight - that commit's complete result. Non-trivial = crash strictly inside a commit or compaction with un-fsynced data or directory operations outstanding; distinct = hash of (history, crash point, persistence)".into()
  }
  fn assumptions() -> Vec<String> {
    vec![
      "crash model: fsync(file) makes the file's data and its own pending creation durable; other directory operations (rename, unlink, creations never followed by an fsync of the file) become durable at fsync(directory) and, before that, persist as a prefix in issue order (ordered-metadata journaling as ext4/xfs); un-fsynced data may be dropped, kept, or kept up to any write boundary with the next write torn at any byte".into(),
      "the trace comes from hooks inside FsStorage itself (cfg searchlite_verif), so a missing fsync or a reordered step in the real code changes the images".into(),
    ]
  }
  fn plan(tier: Tier) -> Plan {
    Plan { workers: 16, cases_per_worker: tier.pick(250, 2000) }
  }
  fn shrink_iters() -> u32 {
    600
  }
  fn strategy(tier: Tier) -> BoxedStrategy<Case> {
    (vec(op_strategy(), 4..25), vec(crash_plan(), tier.pick(24, 200))).prop_map(|(ops, crashes)| Case { rounds: vec![Round { ops, crashes }] }).boxed()
  }
  fn run(case: &Case, _ctx: &Ctx) -> Outcome {
    run_chain(case, true, false, "c01")
  }
}

pub struct C02;

impl Property for C02 {
  type Case = Case;
  const ID: &'static str = "C02";
  const LEVEL: &'static str = "fault_enumeration";
  fn rule() -> String {
    "cases = 1-3 crash/restart rounds: each round runs a history of 2-10 calls (biased to leave queued operations: adds and deletes followed by a writer drop, a commit attempt, or nothing) on the real FsStorage under the filesystem trace hook, crashes at a generated point with a generated persistence choice (tails of wal.log torn at any byte), and restarts on the image; the next round continues on the recovered directory. Oracle per restart: the queue a new writer recovers (read through the public WAL API) is an in-order prefix of the operations queued at the crash and contains every operation that was followed by a successful log sync (commit attempt or writer drop); for a commit that had already been published the queue is empty or complete; finally a new writer's commit gives exactly what the crash-free model gives for the recovered queue (no committed, rolled-back or deleted operation re-applied). Non-trivial = the final queue is non-empty and (a tail was torn or >= 2 rounds ran); distinct = hash of the rounds".into()
  }
  fn assumptions() -> Vec<String> {
    C01::assumptions()
  }
  fn plan(tier: Tier) -> Plan {
    Plan { workers: 16, cases_per_worker: tier.pick(2000, 40000) }
  }
  fn shrink_iters() -> u32 {
    800
  }
  fn strategy(_tier: Tier) -> BoxedStrategy<Case> {
    let s = crash::schema();
    let docopts = DocOpts { text: TextOpts { max_words: 3, odd: false, vocab: 8 }, max_multi: 2, absent: 3, max_nested_objs: 0, null_items: false, extremes: false };
    let op = prop_oneof![
      12 => (gen::doc_id(6), gen::doc_body(&s, docopts)).prop_map(|(i, b)| Op::Add(i, b)),
      4 => vec(gen::doc_id(7), 1..3).prop_map(Op::Delete),
      2 => Just(Op::Commit),
      1 => Just(Op::Rollback),
      4 => Just(Op::DropWriter),
      1 => Just(Op::Compact),
    ];
    // the log tail is what matters here: crash anywhere, with per-file tearing
    let plan = (prop_oneof![1 => Just(1u8), 2 => Just(2u8), 4 => Just(0u8)], any::<u32>(), any::<u16>(), any::<u32>(), prop_oneof![8 => Just(0u8), 1 => Just(1u8), 1 => Just(2u8)])
      .prop_map(|(region, at, dir_cut, file_seed, mode)| CrashPlan { region, at, persist: Persist { dir_cut, file_seed, mode } });
    let round = (vec(op, 2..10), plan).prop_map(|(ops, p)| Round { ops, crashes: vec![p] });
    vec(round, 1..4).prop_map(|rounds| Case { rounds }).boxed()
  }
  fn run(case: &Case, _ctx: &Ctx) -> Outcome {
    run_chain(case, false, true, "c02")
  }
}
