//! Comparing rankings with the tolerance / tie rule of DESIGN §8.
use searchlite_core::api::SearchResult;

pub const TOL: f32 = 1e-5;

pub fn close(a: f32, b: f32) -> bool {
  if a == b {
    return true;
  }
  (a - b).abs() <= TOL * 1.0f32.max(a.abs()).max(b.abs())
}

pub fn close64(a: f64, b: f64) -> bool {
  if a == b || (a.is_nan() && b.is_nan()) {
    return true;
  }
  (a - b).abs() <= 1e-9 * 1.0f64.max(a.abs()).max(b.abs())
}

#[derive(Clone, Debug, PartialEq)]
pub struct H {
  pub id: String,
  pub score: f32,
}

pub fn hits(r: &SearchResult) -> Vec<H> {
  r.hits.iter().map(|h| H { id: h.doc_id.clone(), score: h.score }).collect()
}

/// Two complete rankings of the same result set (nothing truncated): same ids, same per-id scores,
/// same order up to permutations inside runs of hits whose scores are within tolerance.
pub fn same_full_ranking(a: &[H], b: &[H]) -> Result<(), String> {
  if a.len() != b.len() {
    return Err(format!("different number of hits: {} vs {}", a.len(), b.len()));
  }
  for (i, (x, y)) in a.iter().zip(b.iter()).enumerate() {
    if !close(x.score, y.score) {
      return Err(format!("position {i}: score {} ({}) vs {} ({})", x.score, x.id, y.score, y.id));
    }
  }
  for x in a.iter() {
    match b.iter().find(|y| y.id == x.id) {
      Some(y) => {
        if !close(x.score, y.score) {
          return Err(format!("doc {}: score {} vs {}", x.id, x.score, y.score));
        }
      }
      None => return Err(format!("doc {} only in the first ranking", x.id)),
    }
  }
  Ok(())
}

/// Two top-k lists (same k) of the same underlying ranking: same length, position-wise scores
/// equal, per-id scores equal, membership may differ only for hits tied with the k-th score.
pub fn same_top_k(a: &[H], b: &[H]) -> Result<(), String> {
  if a.len() != b.len() {
    return Err(format!("different number of hits: {} vs {}", a.len(), b.len()));
  }
  for (i, (x, y)) in a.iter().zip(b.iter()).enumerate() {
    if !close(x.score, y.score) {
      return Err(format!("position {i}: score {} ({}) vs {} ({})", x.score, x.id, y.score, y.id));
    }
  }
  let last_a = a.last().map(|h| h.score);
  let last_b = b.last().map(|h| h.score);
  for (xs, ys, ylast, name) in [(a, b, last_b, "first"), (b, a, last_a, "second")] {
    for x in xs.iter() {
      match ys.iter().find(|y| y.id == x.id) {
        Some(y) => {
          if !close(x.score, y.score) {
            return Err(format!("doc {}: score {} vs {}", x.id, x.score, y.score));
          }
        }
        None => {
          if !ylast.map(|l| close(l, x.score)).unwrap_or(false) {
            return Err(format!("doc {} (score {}) only in the {name} list and not tied with the other list's last score {:?}", x.id, x.score, ylast));
          }
        }
      }
    }
  }
  Ok(())
}

/// Is `order` sorted descending by score up to tolerance?
pub fn sorted_desc(a: &[H]) -> bool {
  a.windows(2).all(|w| w[0].score >= w[1].score || close(w[0].score, w[1].score))
}
