//! C18 — collapse returns the best hit of each group (oracle: the uncollapsed ranking).
use std::collections::BTreeMap;

use proptest::prelude::*;
use proptest::sample::select;
use serde::{Deserialize, Serialize};
use serde_json::{json, Value};

use crate::engine::{fingerprint_json, Ctx, Outcome, Plan, Property, Tier};
use crate::props::c08;
use crate::qgen::QGen;
use crate::rank::close;
use crate::scoreworld::{self, World, WorldOpts};
use crate::sut;

#[derive(Clone, Debug, Serialize, Deserialize)]
pub struct Case {
  pub world: World,
  pub query: Value,
  pub filter: Option<Value>,
  pub sort: Vec<Value>,
  pub limit: usize,
  pub candidate_size: Option<usize>,
  pub inner: Option<Inner>,
  /// (rescore query, window_size, score_mode): collapse of a rescored ranking (judged on its own, see `run`)
  #[serde(default)]
  pub rescore: Option<(Value, usize, String)>,
}

#[derive(Clone, Debug, Serialize, Deserialize)]
pub struct Inner {
  pub size: Option<usize>,
  pub from: Option<usize>,
  pub sort: Vec<Value>,
}

pub struct C18;

pub const SIG_POOL: &str = "collapse-pool-cut-before-grouping";

fn out_known(o: Outcome) -> Outcome {
  o
}

fn uses_score(sort: &[Value]) -> bool {
  sort.is_empty() || sort.iter().any(|k| k["field"] == "_score")
}

impl C18 {
  /// Collapse of a rescored ranking (default score sort, limit covering every match so that the candidate pool is
  /// the whole ranking): the rescored ranking R' of the same request without collapse is "sorted window, then the
  /// untouched tail", i.e. not globally ordered; each group must still be represented by its best-ranked member
  /// under the request sort = the member with the highest (new) score. Judged: one hit per group, every group of R'
  /// present, no document without the field, representative = a member whose score is the group's maximum in R'
  /// (within the score tolerance). Not judged: the order of the groups, inner hits (none requested).
  fn run_rescored(case: &Case, built: &scoreworld::Built, reader: &searchlite_core::api::IndexReader, rq: &Value, window: usize, mode: &str, mut out: Outcome) -> Outcome {
    out.class("collapse-of-rescored-ranking");
    let n = case.world.docs.len();
    let mut plain = json!({"query": case.query, "limit": n + 5, "execution": "bm25", "rescore": {"window_size": window, "query": rq, "score_mode": mode}});
    if let Some(f) = &case.filter {
      plain["filter"] = f.clone();
    }
    let r = match sut::search(reader, plain.clone()) {
      Ok(r) => r,
      Err(_) => {
        out.class("request-rejected");
        return out;
      }
    };
    let group_of = |id: &str| -> Option<String> { built.live.iter().find(|(i, _, _, _)| i == id).and_then(|(_, d, _, _)| d.get("cat").and_then(|v| v.as_str()).map(|s| s.to_string())) };
    let mut best: BTreeMap<String, f32> = BTreeMap::new();
    let mut score_of: BTreeMap<String, f32> = BTreeMap::new();
    for h in r.hits.iter() {
      score_of.insert(h.doc_id.clone(), h.score);
      if let Some(g) = group_of(&h.doc_id) {
        let e = best.entry(g).or_insert(f32::NEG_INFINITY);
        if h.score > *e {
          *e = h.score;
        }
      }
    }
    let mut req = plain.clone();
    req["collapse"] = json!({"field": "cat"});
    let c = match sut::search(reader, req.clone()) {
      Ok(c) => c,
      Err(e) => {
        out.fail("collapse-request-failed", format!("the same request succeeds without collapse: {e:#}; request {req}"));
        return out;
      }
    };
    let detail = |what: String| format!("{what}; request {req}; rescored ranking without collapse {:?}; collapsed {:?}", r.hits.iter().take(40).map(|h| (h.doc_id.clone(), h.score, group_of(&h.doc_id))).collect::<Vec<_>>(), c.hits.iter().map(|h| (h.doc_id.clone(), h.score)).collect::<Vec<_>>());
    let mut seen: Vec<String> = Vec::new();
    for h in c.hits.iter() {
      let Some(g) = group_of(&h.doc_id) else {
        out.fail("hit-without-group-field", detail(format!("hit {} has no value in the collapse field", h.doc_id)));
        return out;
      };
      if seen.contains(&g) {
        out.fail("two-hits-for-one-group", detail(format!("group {g} is represented twice ({})", h.doc_id)));
        return out;
      }
      seen.push(g.clone());
      let Some(s) = score_of.get(&h.doc_id) else {
        out.fail("representative-is-not-best-of-group", detail(format!("hit {} is not in the ranking without collapse", h.doc_id)));
        return out;
      };
      if !close(*s, h.score) {
        out.fail("representative-is-not-best-of-group", detail(format!("hit {} carries score {} but {} without collapse", h.doc_id, h.score, s)));
        return out;
      }
      let b = best.get(&g).copied().unwrap_or(f32::NEG_INFINITY);
      if !(close(h.score, b) || h.score > b) {
        out.fail("representative-is-not-best-of-group", detail(format!("group {g} is represented by {} (score {}) although a member scores {b} after rescoring", h.doc_id, h.score)));
        return out;
      }
    }
    if seen.len() != best.len() {
      out.fail("wrong-number-of-groups", detail(format!("{} groups returned, the ranking holds {}", seen.len(), best.len())));
      return out;
    }
    // non-trivial: the window ends inside the ranking and some group has members on both sides of it
    if window < r.hits.len() {
      let inside: Vec<String> = r.hits.iter().take(window).filter_map(|h| group_of(&h.doc_id)).collect();
      if r.hits.iter().skip(window).filter_map(|h| group_of(&h.doc_id)).any(|g| inside.contains(&g)) {
        out.nontrivial(fingerprint_json(&(&req, n)));
      }
    }
    out
  }
}

impl Property for C18 {
  type Case = Case;
  const ID: &'static str = "C18";
  fn rule() -> String {
    "cases = tie-heavy corpus (group field `cat`: single-valued or missing, groups of 1-20 members) in 1-4 segments, query, optional filter, main sort plan, limit 1..12 (often below the number of groups), optional candidate_size, optional inner_hits {size, from, sort}; oracle derived from the same request without collapse (its first max(limit,candidate_size)+1 hits are the candidate pool): at most one hit per value, each hit is the first pool member of its group, groups in pool order truncated to limit, documents without the field never appear, total_groups = groups in the pool, inner hits = the other pool members of the group in inner-sort order windowed by from/size. One case in five collapses a rescored ranking instead (default score sort, covering limit): one hit per group, every group present, representative = a member with the group's highest score after rescoring (group order and inner hits not judged there). Non-trivial = >=2 groups with >=2 pool members and an inner sort different from the main sort, or a rescore window that splits a group; distinct = hash of the request and corpus size".into()
  }
  fn assumptions() -> Vec<String> {
    vec!["an inner sort using _score is only combined with a main sort that also uses _score (scores are not computed otherwise: listed C20 finding)".into()]
  }
  fn plan(tier: Tier) -> Plan {
    Plan { workers: 16, cases_per_worker: tier.pick(1500, 100000) }
  }
  fn shrink_iters() -> u32 {
    800
  }
  fn strategy(_tier: Tier) -> BoxedStrategy<Case> {
    let schema = scoreworld::schema();
    let mut g = QGen::new(&schema, 6, false);
    g.phrases = false;
    let w = scoreworld::world(WorldOpts { min_docs: 5, max_docs: 60, max_commits: 4, deletes: true, ties: true, vocab: 6 });
    let query = prop_oneof![2 => Just(json!({"type": "match_all"})), 4 => g.tree(2)];
    let inner = (proptest::option::of(0usize..4), proptest::option::of(0usize..3), scoreworld::sort_plan(2)).prop_map(|(size, from, sort)| Inner { size, from, sort });
    (w, query, proptest::option::weighted(0.2, c08::root_filter(&schema, 1)), scoreworld::sort_plan(2), prop_oneof![3 => 1usize..12, 2 => Just(100usize)], proptest::option::weighted(0.4, select(vec![1usize, 5, 20, 100])), proptest::option::weighted(0.7, inner), proptest::option::weighted(0.2, (crate::props::c19::rescore_query(), 1usize..12, select(vec!["total", "multiply", "max", "min"]))))
      .prop_map(|(world, query, filter, sort, limit, candidate_size, inner, rescore)| {
        let mut inner = inner;
        if let Some(i) = inner.as_mut() {
          if !uses_score(&sort) && uses_score(&i.sort) {
            // keep the documented domain: give the inner sort a non-score key
            i.sort = vec![json!({"field": "year", "order": "desc"})];
          }
        }
        Case { world, query, filter, sort, limit, candidate_size, inner, rescore: rescore.map(|(q, w, m)| (q, w, m.to_string())) }
      })
      .boxed()
  }
  fn run(case: &Case, ctx: &Ctx) -> Outcome {
    let mut out = Outcome::new();
    out.evals = 1;
    let built = match case.world.build("c18") {
      Ok(b) => b,
      Err(e) => {
        out.fail("corpus-build-failed", format!("{e:#}"));
        return out;
      }
    };
    let reader = match built.idx.reader() {
      Ok(r) => r,
      Err(e) => {
        out.fail("reader-open-failed", format!("{e:#}"));
        return out;
      }
    };
    let n = case.world.docs.len();
    if let Some((rq, window, mode)) = &case.rescore {
      return Self::run_rescored(case, &built, &reader, rq, *window, mode, out);
    }
    let mut plain = json!({"query": case.query, "limit": n + 5, "execution": "bm25", "sort": case.sort});
    if let Some(f) = &case.filter {
      plain["filter"] = f.clone();
    }
    let r = match sut::search(&reader, plain.clone()) {
      Ok(r) => r,
      Err(_) => {
        out.class("request-rejected");
        return out;
      }
    };
    let group_of = |id: &str| -> Option<String> { built.live.iter().find(|(i, _, _, _)| i == id).and_then(|(_, d, _, _)| d.get("cat").and_then(|v| v.as_str()).map(|s| s.to_string())) };
    // The engine collapses a candidate pool that holds at least the first max(limit, candidate_size)+1
    // hits of the uncollapsed ranking R (it may hold more). The oracle is therefore stated over R and is
    // exact when the limit covers every match.
    let min_pool = case.limit.max(case.candidate_size.unwrap_or(case.limit)) + 1;
    let exact = min_pool > r.hits.len();
    let ranking: Vec<(String, f32)> = r.hits.iter().map(|h| (h.doc_id.clone(), h.score)).collect();
    let pool = &ranking;
    let mut order: Vec<String> = Vec::new();
    let mut members: BTreeMap<String, Vec<(String, f32)>> = BTreeMap::new();
    for (id, s) in ranking.iter() {
      if let Some(g) = group_of(id) {
        if !members.contains_key(&g) {
          order.push(g.clone());
        }
        members.entry(g).or_default().push((id.clone(), *s));
      }
    }
    let groups_in_min_pool = {
      let mut v: Vec<String> = Vec::new();
      for (id, _) in ranking.iter().take(min_pool) {
        if let Some(g) = group_of(id) {
          if !v.contains(&g) {
            v.push(g);
          }
        }
      }
      v.len()
    };
    let mut req = plain.clone();
    req["limit"] = json!(case.limit);
    if let Some(c) = case.candidate_size {
      req["candidate_size"] = json!(c);
    }
    let mut collapse = json!({"field": "cat"});
    if let Some(i) = &case.inner {
      let mut ih = json!({"sort": i.sort});
      if let Some(s) = i.size {
        ih["size"] = json!(s);
      }
      if let Some(f) = i.from {
        ih["from"] = json!(f);
      }
      collapse["inner_hits"] = ih;
    }
    req["collapse"] = collapse;
    let c = match sut::search(&reader, req.clone()) {
      Ok(c) => c,
      Err(e) => {
        out.fail("collapse-request-failed", format!("the same request succeeds without collapse: {e:#}; request {req}"));
        return out;
      }
    };
    let ctx_detail = |what: String| format!("{what}; request {req}; uncollapsed ranking {:?}; groups in ranking order {:?}", pool.iter().take(40).collect::<Vec<_>>(), order);
    // (1) one hit per value, never a document without the field
    let mut seen = Vec::new();
    for h in c.hits.iter() {
      match group_of(&h.doc_id) {
        None => {
          out.fail("hit-without-group-field", ctx_detail(format!("hit {} has no value in the collapse field", h.doc_id)));
          return out;
        }
        Some(g) => {
          if seen.contains(&g) {
            out.fail("two-hits-for-one-group", ctx_detail(format!("group {g} is represented twice ({})", h.doc_id)));
            return out;
          }
          seen.push(g);
        }
      }
    }
    // (2) returned groups are a prefix of the groups in ranking order; each is represented by its best hit
    let want_len_min = case.limit.min(groups_in_min_pool);
    let want_len_max = case.limit.min(order.len());
    if c.hits.len() < want_len_min || c.hits.len() > want_len_max {
      out.fail("wrong-number-of-groups", ctx_detail(format!("{} hits returned, expected between {} and {} groups", c.hits.len(), want_len_min, want_len_max)));
      return out;
    }
    for (h, g) in c.hits.iter().zip(order.iter()) {
      let m = &members[g];
      let (best_id, best_score) = &m[0];
      if h.doc_id != *best_id {
        // tolerate a swap between near-ties when the sort uses the score
        let hg = group_of(&h.doc_id);
        let near_tie = uses_score(&case.sort) && close(h.score, *best_score);
        if !(near_tie && (hg.as_ref() == Some(g) || order.iter().take(c.hits.len()).any(|s| Some(s) == hg.as_ref()))) {
          let best_pos = ranking.iter().position(|(id, _)| id == best_id).unwrap_or(0);
          if best_pos >= min_pool {
            // listed finding: the candidate pool is cut (per segment) before grouping, so a group whose best
            // member ranks beyond the first max(limit,candidate_size)+1 hits can be represented by a worse member
            out.fail(SIG_POOL, ctx_detail(format!("at the position of group {g} the response has {} (group {:?}) although {best_id} (rank {best_pos} of the uncollapsed ranking, beyond the first {min_pool}) is the best hit of the next group", h.doc_id, hg)));
            if ctx.is_known(Self::ID, SIG_POOL) {
              out.excluded_known += 1;
              return out_known(out);
            }
            return out;
          }
          out.fail("representative-is-not-best-of-group", ctx_detail(format!("position of group {g}: got {} (group {:?}), the best-ranked member is {best_id}", h.doc_id, hg)));
          return out;
        }
      }
    }
    // (3) total_groups
    let tg = c.total_groups.unwrap_or(u64::MAX);
    if (exact && tg != order.len() as u64) || tg < groups_in_min_pool as u64 || tg > order.len() as u64 {
      out.fail("total-groups-wrong", ctx_detail(format!("total_groups {:?}; the ranking holds {} groups, its first {} hits hold {}", c.total_groups, order.len(), min_pool, groups_in_min_pool)));
      return out;
    }
    // (4) inner hits
    let mut inner_nontrivial = false;
    match &case.inner {
      None => {
        if c.hits.iter().any(|h| h.inner_hits.is_some()) {
          out.fail("unexpected-inner-hits", ctx_detail("inner hits returned although none were requested".into()));
          return out;
        }
      }
      Some(i) => {
        // order of all matches under the inner sort
        let mut rin_req = plain.clone();
        rin_req["sort"] = json!(i.sort);
        let rin = match sut::search(&reader, rin_req.clone()) {
          Ok(r) => r,
          Err(e) => {
            out.fail("inner-sort-request-failed", format!("{e:#}; request {rin_req}"));
            return out;
          }
        };
        let pos_in: BTreeMap<String, usize> = rin.hits.iter().enumerate().map(|(p, h)| (h.doc_id.clone(), p)).collect();
        for h in c.hits.iter() {
          let g = group_of(&h.doc_id).unwrap();
          let mut others: Vec<(String, f32)> = members[&g].iter().filter(|(id, _)| *id != h.doc_id).cloned().collect();
          others.sort_by_key(|(id, _)| pos_in.get(id).copied().unwrap_or(usize::MAX));
          let from = i.from.unwrap_or(0);
          let got: Vec<String> = h.inner_hits.as_ref().map(|v| v.iter().map(|x| x.doc_id.clone()).collect()).unwrap_or_default();
          let score_sorted_inner = uses_score(&i.sort);
          if exact {
            let mut expect: Vec<String> = others.iter().skip(from).map(|(id, _)| id.clone()).collect();
            if let Some(s) = i.size {
              expect.truncate(s);
            }
            if got != expect {
              let mut a = got.clone();
              let mut b = expect.clone();
              a.sort();
              b.sort();
              if !(score_sorted_inner && a == b) {
                out.fail("inner-hits-wrong", ctx_detail(format!("group {g} (hit {}): inner hits {:?}, expected {:?} (other members {:?} under the inner sort {:?}, from {:?}, size {:?})", h.doc_id, got, expect, others, i.sort, i.from, i.size)));
                return out;
              }
            }
          } else {
            // pool unknown: members of the same group, never the representative, no duplicates,
            // at most `size`, in inner-sort order
            let other_ids: Vec<&String> = others.iter().map(|(id, _)| id).collect();
            let mut last = None;
            for (k, id) in got.iter().enumerate() {
              let Some(p) = other_ids.iter().position(|o| *o == id) else {
                out.fail("inner-hit-not-in-group", ctx_detail(format!("group {g} (hit {}): inner hit {id} is not another member of the group", h.doc_id)));
                return out;
              };
              if got[..k].contains(id) {
                out.fail("inner-hits-wrong", ctx_detail(format!("group {g}: inner hit {id} twice")));
                return out;
              }
              if let Some(l) = last {
                if p < l && !score_sorted_inner {
                  out.fail("inner-hits-wrong", ctx_detail(format!("group {g} (hit {}): inner hits {:?} are not in inner-sort order {:?}", h.doc_id, got, other_ids)));
                  return out;
                }
              }
              last = Some(p);
            }
            if let Some(s) = i.size {
              if got.len() > s {
                out.fail("inner-hits-wrong", ctx_detail(format!("group {g}: {} inner hits, size {s}", got.len())));
                return out;
              }
            }
          }
        }
        inner_nontrivial = i.sort != case.sort;
      }
    }
    if exact {
      out.class("limit-covers-all-matches");
    }
    let big_groups = members.values().filter(|m| m.len() >= 2).count();
    if big_groups >= 2 {
      out.class("two-groups-with-two-members");
      if inner_nontrivial {
        out.nontrivial(fingerprint_json(&(&req, n)));
      }
    }
    if order.len() > case.limit {
      out.class("more-groups-than-limit");
    }
    out
  }
}
