//! C15 — every accepted document can be committed; schema violations are rejected when queued.
use proptest::collection::vec;
use proptest::prelude::*;
use serde::{Deserialize, Serialize};
use serde_json::{json, Map, Value};

use crate::engine::{fingerprint_json, sanitize_sig, Ctx, Outcome, Plan, Property, Tier};
use crate::gen::{self, DocOpts, NestedSpec, PropSpec, SchemaOpts, SchemaSpec};
use crate::sut::{self, Scratch, StorageKind};

/// One structural edit applied to a valid document. Selectors are mapped monotonically onto the
/// available targets so shrinking converges.
#[derive(Clone, Debug, Serialize, Deserialize)]
pub enum Edit {
  /// add a key that the schema does not declare (top level)
  AddUnknownTop(String, Value),
  /// replace the value at the sel-th JSON node (pre-order over the document) with this value
  ReplaceNode(u16, Value),
  /// remove the sel-th key (pre-order over all object keys)
  RemoveKey(u16),
  /// add an undeclared key inside the sel-th nested object
  AddUnknownNested(u16, String, Value),
  /// wrap the sel-th node in an array
  WrapArray(u16),
  /// replace the id
  SetId(Value),
  RemoveId,
}

#[derive(Clone, Debug, Serialize, Deserialize)]
pub struct Case {
  pub schema: SchemaSpec,
  pub storage: StorageKind,
  pub base: Map<String, Value>,
  pub edits: Vec<Edit>,
  pub follow_up: Map<String, Value>,
}

fn junk_value() -> BoxedStrategy<Value> {
  prop_oneof![
    Just(Value::Null),
    Just(json!(true)),
    Just(json!(7)),
    Just(json!(1.5)),
    Just(json!("text")),
    Just(json!("")),
    Just(json!([])),
    Just(json!({})),
    Just(json!([1, "a"])),
    Just(json!(["a", "b"])),
    Just(json!([1, 2])),
    Just(json!([1.5])),
    Just(json!([[1]])),
    Just(json!([["a"]])),
    Just(json!([{}])),
    Just(json!([[{}]])),
    Just(json!({"author": "x"})),
    Just(json!([null])),
    Just(json!({"a": {"b": 1}})),
    Just(json!(9007199254740993i64)),
    Just(json!(18446744073709551615u64)),
  ]
  .boxed()
}

fn edit() -> BoxedStrategy<Edit> {
  let names = prop::sample::select(vec!["bogus", "extra_field", "Body", "tag ", "_id2", "author"]).prop_map(|s| s.to_string());
  prop_oneof![
    3 => (names.clone(), junk_value()).prop_map(|(n, v)| Edit::AddUnknownTop(n, v)),
    6 => (any::<u16>(), junk_value()).prop_map(|(s, v)| Edit::ReplaceNode(s, v)),
    2 => any::<u16>().prop_map(Edit::RemoveKey),
    3 => (any::<u16>(), names, junk_value()).prop_map(|(s, n, v)| Edit::AddUnknownNested(s, n, v)),
    2 => any::<u16>().prop_map(Edit::WrapArray),
    1 => prop_oneof![Just(json!("")), Just(json!("  ")), Just(json!(5)), Just(Value::Null), Just(json!(["a"])), Just(json!("\t\n")), Just(json!("ok id"))].prop_map(Edit::SetId),
    1 => Just(Edit::RemoveId),
  ]
  .boxed()
}

fn pick(sel: u16, len: usize) -> usize {
  ((sel as usize) * len) >> 16
}

// pre-order walk over nodes below the top-level object (excluding the id field)
fn collect_paths(v: &Value, path: &mut Vec<PathSeg>, out: &mut Vec<Vec<PathSeg>>, id_field: &str, top: bool) {
  match v {
    Value::Object(m) => {
      for (k, x) in m.iter() {
        if top && k == id_field {
          continue;
        }
        path.push(PathSeg::Key(k.clone()));
        out.push(path.clone());
        collect_paths(x, path, out, id_field, false);
        path.pop();
      }
    }
    Value::Array(a) => {
      for (i, x) in a.iter().enumerate() {
        path.push(PathSeg::Idx(i));
        out.push(path.clone());
        collect_paths(x, path, out, id_field, false);
        path.pop();
      }
    }
    _ => {}
  }
}

#[derive(Clone, Debug)]
enum PathSeg {
  Key(String),
  Idx(usize),
}

fn get_mut<'a>(v: &'a mut Value, path: &[PathSeg]) -> Option<&'a mut Value> {
  let mut cur = v;
  for seg in path {
    cur = match seg {
      PathSeg::Key(k) => cur.as_object_mut()?.get_mut(k)?,
      PathSeg::Idx(i) => cur.as_array_mut()?.get_mut(*i)?,
    };
  }
  Some(cur)
}

fn apply_edit(doc: &mut Value, e: &Edit, id_field: &str) {
  let mut paths = Vec::new();
  collect_paths(doc, &mut Vec::new(), &mut paths, id_field, true);
  match e {
    Edit::AddUnknownTop(k, v) => {
      doc.as_object_mut().unwrap().insert(k.clone(), v.clone());
    }
    Edit::ReplaceNode(sel, v) => {
      if paths.is_empty() {
        return;
      }
      let p = &paths[pick(*sel, paths.len())];
      if let Some(slot) = get_mut(doc, p) {
        *slot = v.clone();
      }
    }
    Edit::RemoveKey(sel) => {
      let keyed: Vec<&Vec<PathSeg>> = paths.iter().filter(|p| matches!(p.last(), Some(PathSeg::Key(_)))).collect();
      if keyed.is_empty() {
        return;
      }
      let p = keyed[pick(*sel, keyed.len())].clone();
      let (last, parent) = p.split_last().unwrap();
      if let (Some(par), PathSeg::Key(k)) = (get_mut(doc, parent), last) {
        if let Some(m) = par.as_object_mut() {
          m.remove(k);
        }
      }
    }
    Edit::AddUnknownNested(sel, k, v) => {
      // objects below the top level
      let objs: Vec<Vec<PathSeg>> = paths.iter().filter(|p| get_ref(doc, p).map(|x| x.is_object()).unwrap_or(false)).cloned().collect();
      if objs.is_empty() {
        return;
      }
      let p = objs[pick(*sel, objs.len())].clone();
      if let Some(o) = get_mut(doc, &p).and_then(|x| x.as_object_mut()) {
        o.insert(k.clone(), v.clone());
      }
    }
    Edit::WrapArray(sel) => {
      if paths.is_empty() {
        return;
      }
      let p = &paths[pick(*sel, paths.len())];
      if let Some(slot) = get_mut(doc, p) {
        let old = slot.take();
        *slot = Value::Array(vec![old]);
      }
    }
    Edit::SetId(v) => {
      doc.as_object_mut().unwrap().insert(id_field.to_string(), v.clone());
    }
    Edit::RemoveId => {
      doc.as_object_mut().unwrap().remove(id_field);
    }
  }
}

fn get_ref<'a>(v: &'a Value, path: &[PathSeg]) -> Option<&'a Value> {
  let mut cur = v;
  for seg in path {
    cur = match seg {
      PathSeg::Key(k) => cur.as_object()?.get(k)?,
      PathSeg::Idx(i) => cur.as_array()?.get(*i)?,
    };
  }
  Some(cur)
}

// ---- the documented schema rules, written independently of the crate's validator ----

fn strs_ok(v: &Value) -> bool {
  match v {
    Value::String(_) => true,
    Value::Array(a) => a.iter().all(|x| x.is_string()),
    _ => false,
  }
}
fn i64_ok(v: &Value) -> bool {
  match v {
    Value::Number(n) => n.as_i64().is_some(),
    Value::Array(a) => a.iter().all(|x| x.as_i64().is_some()),
    _ => false,
  }
}
fn f64_ok(v: &Value) -> bool {
  match v {
    Value::Number(n) => n.as_f64().is_some(),
    Value::Array(a) => a.iter().all(|x| x.is_number() && x.as_f64().is_some()),
    _ => false,
  }
}

fn leaf_violation(kind: &str, nullable: bool, v: &Value) -> Option<&'static str> {
  if v.is_null() {
    return if nullable { None } else { Some("null-on-non-nullable") };
  }
  let ok = match kind {
    "text" | "keyword" => strs_ok(v),
    "i64" => i64_ok(v),
    _ => f64_ok(v),
  };
  if ok {
    None
  } else {
    Some("wrong-value-type")
  }
}

fn nested_violation(n: &NestedSpec, v: &Value, in_array: bool) -> Option<&'static str> {
  match v {
    Value::Null => {
      if n.nullable {
        None
      } else {
        Some("null-on-non-nullable-nested")
      }
    }
    Value::Array(a) => {
      if in_array {
        return Some("nested-array-of-arrays");
      }
      for x in a {
        if let Some(c) = nested_violation(n, x, true) {
          return Some(c);
        }
      }
      None
    }
    Value::Object(m) => {
      for (k, x) in m.iter() {
        let Some(p) = n.props.iter().find(|p| p.name() == k) else { return Some("unknown-nested-key") };
        let c = match p {
          PropSpec::Text(t) => leaf_violation("text", t.nullable, x),
          PropSpec::Keyword(kw) => leaf_violation("keyword", kw.nullable, x),
          PropSpec::Numeric(nm) => leaf_violation(if nm.i64 { "i64" } else { "f64" }, nm.nullable, x),
          PropSpec::Object(o) => {
            if x.is_null() {
              if o.nullable {
                None
              } else {
                Some("null-on-non-nullable-nested")
              }
            } else {
              nested_violation(o, x, false)
            }
          }
        };
        if let Some(c) = c {
          return Some(match c {
            "wrong-value-type" => "nested-wrong-value-type",
            other => other,
          });
        }
      }
      for p in n.props.iter() {
        if !m.contains_key(p.name()) && !p.nullable() {
          return Some("missing-required-nested-property");
        }
      }
      None
    }
    _ => Some("scalar-in-nested"),
  }
}

/// None = the document satisfies every documented schema rule.
pub fn schema_violation(schema: &SchemaSpec, doc: &Value) -> Option<&'static str> {
  let m = doc.as_object()?;
  match m.get(&schema.doc_id_field) {
    Some(Value::String(s)) if !s.trim().is_empty() => {}
    _ => return Some("missing-or-blank-id"),
  }
  for (k, v) in m.iter() {
    if *k == schema.doc_id_field {
      continue;
    }
    if let Some(t) = schema.text.iter().find(|t| t.name == *k) {
      if let Some(c) = leaf_violation("text", t.nullable, v) {
        return Some(c);
      }
    } else if let Some(kw) = schema.keyword.iter().find(|t| t.name == *k) {
      if let Some(c) = leaf_violation("keyword", kw.nullable, v) {
        return Some(c);
      }
    } else if let Some(n) = schema.numeric.iter().find(|t| t.name == *k) {
      if let Some(c) = leaf_violation(if n.i64 { "i64" } else { "f64" }, n.nullable, v) {
        return Some(c);
      }
    } else if let Some(n) = schema.nested.iter().find(|t| t.name == *k) {
      if let Some(c) = nested_violation(n, v, false) {
        return Some(c);
      }
    } else {
      return Some("unknown-field");
    }
  }
  None
}

fn error_class(e: &str) -> String {
  // keep the leading words of the message, drop names and paths
  let e = e.to_lowercase();
  for (needle, class) in [
    ("unknown field", "unknown-field"),
    ("unknown nested field", "unknown-nested-field"),
    ("must contain objects", "nested-must-contain-objects"),
    ("must be object or array", "nested-must-be-object-or-array"),
    ("missing required nested field", "missing-required-nested-field"),
    ("cannot be null", "cannot-be-null"),
    ("document id", "document-id"),
  ] {
    if e.contains(needle) {
      return class.to_string();
    }
  }
  sanitize_sig(&e.chars().take(40).collect::<String>())
}

pub struct C15;

impl Property for C15 {
  type Case = Case;
  const ID: &'static str = "C15";
  fn rule() -> String {
    "cases = a random schema, a schema-valid document and 1-3 structural edits (undeclared keys at top level or inside nested objects, replaced/wrapped/removed nodes, id edits); oracle: add_document Ok => commit Ok and a later valid document through a fresh writer also commits; a document violating a documented schema rule (own independent validator) must be rejected by add_document. Non-trivial = the edited document violates a rule, or it was accepted after being edited; distinct = hash of (schema, edited document)".into()
  }
  fn assumptions() -> Vec<String> {
    vec!["the documented schema rules are those listed in the property: id present and non-blank string, declared fields only, value types per field kind (strings / integers / numbers, scalar or array), nullability, nested values are objects or arrays of objects with declared keys and required non-nullable properties".into()]
  }
  fn plan(tier: Tier) -> Plan {
    Plan { workers: 16, cases_per_worker: tier.pick(1500, 90000) }
  }
  fn strategy(_tier: Tier) -> BoxedStrategy<Case> {
    let so = SchemaOpts { analyzers: false, ..SchemaOpts::default() };
    (gen::schema(so), prop_oneof![4 => Just(StorageKind::Mem), 1 => Just(StorageKind::Fs)])
      .prop_flat_map(|(schema, storage)| {
        let d = DocOpts { absent: 1, ..DocOpts::default() };
        let base = gen::doc_body(&schema, d);
        let follow = gen::doc_body(&schema, d);
        (Just(schema), Just(storage), base, vec(edit(), 1..4), follow)
      })
      .prop_map(|(schema, storage, base, edits, follow_up)| Case { schema, storage, base, edits, follow_up })
      .boxed()
  }
  fn fixed_cases(_tier: Tier) -> Vec<Case> {
    // regression shapes of the defects repaired by the two `fix:` commits (see known_findings.txt)
    let mut schema = SchemaSpec::simple();
    schema.nested.push(NestedSpec {
      name: "comment".into(),
      nullable: false,
      props: vec![
        PropSpec::Keyword(gen::KwSpec { name: "author".into(), stored: true, indexed: true, fast: true, nullable: false }),
        PropSpec::Numeric(gen::NumSpec { name: "score".into(), i64: true, fast: true, stored: true, nullable: true }),
      ],
    });
    let base: Map<String, Value> = json!({"body": "rust search", "comment": [{"author": "red", "score": 1}]}).as_object().unwrap().clone();
    let mk = |edits: Vec<Edit>| Case { schema: schema.clone(), storage: StorageKind::Mem, base: base.clone(), edits, follow_up: base.clone() };
    vec![
      mk(vec![Edit::AddUnknownTop("bogus".into(), json!(1))]),
      mk(vec![Edit::AddUnknownTop("bogus".into(), Value::Null)]),
      mk(vec![Edit::ReplaceNode(40000, json!([[{"author": "x"}]]))]),
      mk(vec![Edit::ReplaceNode(40000, json!([7]))]),
      mk(vec![Edit::ReplaceNode(40000, json!({"author": [1, 2]}))]),
      mk(vec![Edit::ReplaceNode(40000, json!({"author": "x", "score": 1.5}))]),
      mk(vec![Edit::SetId(json!("  "))]),
    ]
  }
  fn run(case: &Case, _ctx: &Ctx) -> Outcome {
    let mut out = Outcome::new();
    out.evals = 1;
    let mut doc = gen::with_id(&case.schema, "doc-1", case.base.clone());
    for e in case.edits.iter() {
      apply_edit(&mut doc, e, &case.schema.doc_id_field);
    }
    let violation = schema_violation(&case.schema, &doc);
    let scratch = Scratch::new("c15");
    let root = scratch.sub("idx");
    let storage = sut::make_storage(&root, case.storage);
    let opts = sut::default_options(&root, case.storage);
    let idx = match sut::create_index(&root, &case.schema, opts, storage) {
      Ok(i) => i,
      Err(e) => {
        out.fail("create-failed", format!("{e:#}"));
        return out;
      }
    };
    let mut w = match idx.writer() {
      Ok(w) => w,
      Err(e) => {
        out.fail("writer-open-failed", format!("{e:#}"));
        return out;
      }
    };
    let accepted = w.add_document(&sut::document(&doc));
    match (&accepted, violation) {
      (Ok(_), Some(cat)) => {
        out.class(format!("accepted-with-violation:{cat}"));
      }
      (Ok(_), None) => out.class("accepted-valid"),
      (Err(_), Some(cat)) => out.class(format!("rejected:{cat}")),
      (Err(e), None) => {
        out.fail("valid-doc-rejected", format!("document satisfies every documented rule but add_document rejected it: {e:#}; doc={doc}"));
        return out;
      }
    }
    if violation.is_some() || accepted.is_ok() {
      out.nontrivial(fingerprint_json(&(&case.schema, &doc)));
    }
    if accepted.is_err() {
      // A rejected document queues nothing: it can never block later commits - neither of the same
      // handle nor (after the handle went away without commit or rollback) of a later writer that
      // recovers the log.
      out.evals += 1;
      let follow = gen::with_id(&case.schema, "doc-2", case.follow_up.clone());
      let same_handle = case.edits.len() % 2 == 0;
      let res: anyhow::Result<()> = (|| {
        if same_handle {
          w.add_document(&sut::document(&follow))?;
          w.commit()?;
          drop(w);
        } else {
          drop(w);
          let mut w2 = idx.writer()?;
          w2.add_document(&sut::document(&follow))?;
          w2.commit()?;
        }
        Ok(())
      })();
      if let Err(e) = res {
        out.fail(
          "rejected-document-blocks-later-commit",
          format!("add_document rejected {doc}, then a valid document ({}) could not be committed: {e:#}", if same_handle { "same writer" } else { "fresh writer after the first was dropped" }),
        );
        return out;
      }
      match idx.reader().and_then(|r| sut::contents(&r, 10)) {
        Ok((docs, _)) => {
          let ids: Vec<&String> = docs.iter().map(|(i, _)| i).collect();
          if ids != vec!["doc-2"] {
            out.fail("rejected-document-left-a-trace", format!("after rejecting {doc} and committing doc-2 the index holds {ids:?}"));
            return out;
          }
        }
        Err(e) => {
          out.fail("unreadable-after-commit", format!("{e:#}"));
          return out;
        }
      }
      out.class(if same_handle { "rejected-then-commit-same-writer" } else { "rejected-then-commit-fresh-writer" });
      return out;
    }
    if accepted.is_ok() {
      // (a) commit must succeed
      if let Err(e) = w.commit() {
        let msg = format!("{e:#}");
        let sig = format!("commit-failed-after-accept:{}", error_class(&msg));
        // how bad: is every later commit blocked?
        drop(w);
        let mut blocked = String::new();
        if let Ok(mut w2) = idx.writer() {
          let follow = gen::with_id(&case.schema, "doc-2", case.follow_up.clone());
          if w2.add_document(&sut::document(&follow)).is_ok() {
            if let Err(e2) = w2.commit() {
              blocked = format!("; a later valid document through a fresh writer cannot be committed either: {e2:#}");
            }
          }
          let _ = w2.rollback();
        }
        out.fail(sig, format!("add_document accepted {doc} (schema rule violated: {violation:?}) but commit failed: {msg}{blocked}"));
        return out;
      }
      drop(w);
      // a later valid document through a fresh writer must commit too
      let follow = gen::with_id(&case.schema, "doc-2", case.follow_up.clone());
      match idx.writer() {
        Ok(mut w2) => {
          if let Err(e) = w2.add_document(&sut::document(&follow)) {
            out.fail("valid-doc-rejected", format!("follow-up valid document rejected: {e:#}; doc={follow}"));
            return out;
          }
          if let Err(e) = w2.commit() {
            out.fail("later-commit-failed", format!("after committing {doc}, a later valid document could not be committed: {e:#}"));
            return out;
          }
        }
        Err(e) => {
          out.fail("writer-open-failed", format!("fresh writer after commit: {e:#}"));
          return out;
        }
      }
      // and the index must still be readable
      match idx.reader().and_then(|r| sut::contents(&r, 10)) {
        Ok(_) => {}
        Err(e) => {
          out.fail("unreadable-after-commit", format!("index unreadable after committing {doc}: {e:#}"));
          return out;
        }
      }
      // (b) a rule-violating document must have been rejected when queued
      if let Some(cat) = violation {
        let sig = format!("accepted-invalid:{cat}");
        out.fail(sig, format!("document violates the schema ({cat}) but add_document accepted it (and commit succeeded): {doc}"));
      }
    }
    out
  }
}
