//! Generators for query trees (searchlite's JSON query AST) over a given schema.
use proptest::collection::vec;
use proptest::prelude::*;
use proptest::sample::select;
use serde_json::{json, Value};

use crate::gen::{SchemaSpec, ODD_WORDS, WORDS};
use crate::props::c08;

#[derive(Clone, Debug)]
pub struct QGen {
  pub text: Vec<String>,
  pub kw: Vec<String>,
  pub rank: Vec<String>,
  pub vocab: usize,
  pub odd: bool,
  pub schema: SchemaSpec,
  /// generate scoring wrappers (function_score, script_score, rank_feature, constant_score)
  pub scoring: bool,
  /// generate expansion nodes (prefix / wildcard / regex)
  pub expansions: bool,
  pub phrases: bool,
  /// only prefix expansions (no wildcard / regex)
  pub prefix_only: bool,
  /// function_score nodes may carry `min_score` (only for differential checks: what it drops is not documented)
  pub min_score: bool,
}

impl QGen {
  pub fn new(schema: &SchemaSpec, vocab: usize, odd: bool) -> QGen {
    QGen {
      text: schema.text.iter().filter(|t| t.indexed).map(|t| t.name.clone()).collect(),
      kw: schema.keyword.iter().filter(|k| k.indexed).map(|k| k.name.clone()).collect(),
      rank: schema.numeric.iter().filter(|n| n.fast).map(|n| n.name.clone()).collect(),
      vocab,
      odd,
      schema: schema.clone(),
      scoring: true,
      expansions: true,
      phrases: true,
      prefix_only: false,
      min_score: false,
    }
  }

  pub fn word(&self) -> BoxedStrategy<String> {
    let n = self.vocab.min(WORDS.len()).max(1);
    let mut pool: Vec<String> = WORDS[..n].iter().map(|s| s.to_string()).collect();
    let near = ["rusk", "rubx", "serch", "fst", "quik", "browm", "zzz", "indexes"];
    let base = select(pool.clone());
    if self.odd {
      pool.extend(ODD_WORDS.iter().map(|s| s.to_string()));
    }
    prop_oneof![
      8 => base,
      2 => select(pool),
      1 => select(near.to_vec()).prop_map(|s| s.to_string()),
    ]
    .boxed()
  }

  fn any_text_field(&self) -> BoxedStrategy<String> {
    if self.text.is_empty() {
      Just("body".to_string()).boxed()
    } else {
      select(self.text.clone()).boxed()
    }
  }

  fn term_field(&self) -> BoxedStrategy<String> {
    let mut all = self.text.clone();
    all.extend(self.text.clone());
    all.extend(self.kw.clone());
    if all.is_empty() {
      all.push("body".into());
    }
    select(all).boxed()
  }

  fn boost() -> BoxedStrategy<Option<f64>> {
    prop_oneof![6 => Just(None), 2 => select(vec![0.5f64, 2.0, 1.0, 3.5]).prop_map(Some), 1 => Just(Some(0.0))].boxed()
  }

  fn with_boost(mut v: Value, b: Option<f64>) -> Value {
    if let Some(b) = b {
      v.as_object_mut().unwrap().insert("boost".into(), json!(b));
    }
    v
  }

  pub fn term(&self) -> BoxedStrategy<Value> {
    let kws: Vec<String> = crate::gen::KEYWORDS.iter().filter(|s| !s.is_empty() && !s.contains(' ')).map(|s| s.to_string()).collect();
    let kw_fields = self.kw.clone();
    (self.term_field(), self.word(), select(kws), Self::boost())
      .prop_map(move |(f, w, k, b)| {
        let value = if kw_fields.contains(&f) { k } else { w };
        Self::with_boost(json!({"type": "term", "field": f, "value": value}), b)
      })
      .boxed()
  }

  pub fn pattern(&self) -> BoxedStrategy<Value> {
    let prefix_only = self.prefix_only;
    (self.any_text_field(), self.word(), 0usize..12, 1usize..4, Self::boost())
      .prop_map(move |(f, w, shape, k, b)| {
        let shape = if prefix_only { shape % 3 } else { shape };
        let chars: Vec<char> = w.chars().collect();
        let n = chars.len();
        let take = |a: usize, z: usize| -> String { chars[a.min(n)..z.min(n)].iter().collect() };
        let k = k.min(n.max(1));
        let v = match shape {
          0 | 1 => json!({"type": "prefix", "field": f, "value": take(0, k)}),
          2 => json!({"type": "prefix", "field": f, "value": w}),
          3 => json!({"type": "wildcard", "field": f, "value": format!("{}*", take(0, k))}),
          4 => json!({"type": "wildcard", "field": f, "value": format!("{}?{}", take(0, 1), take(2, n))}),
          5 => json!({"type": "wildcard", "field": f, "value": format!("{}*{}", take(0, 1), take(n.saturating_sub(1), n))}),
          6 => json!({"type": "wildcard", "field": f, "value": format!("*{}", take(1, n))}),
          7 => json!({"type": "regex", "field": f, "value": format!("{}.*", take(0, k))}),
          8 => json!({"type": "regex", "field": f, "value": format!("({}|ruby|fox)", w)}),
          9 => json!({"type": "regex", "field": f, "value": format!("{}[a-z]+", take(0, k))}),
          10 => json!({"type": "regex", "field": f, "value": w}),
          _ => json!({"type": "regex", "field": f, "value": format!("{}(s|ning|ed)?", take(0, n.min(3)))}),
        };
        Self::with_boost(v, b)
      })
      .boxed()
  }

  pub fn phrase(&self) -> BoxedStrategy<Value> {
    (proptest::option::weighted(0.8, self.any_text_field()), vec(self.word(), 1..4), proptest::option::of(0usize..3))
      .prop_map(|(f, terms, slop)| {
        let mut v = json!({"type": "phrase", "terms": terms});
        if let Some(f) = f {
          v["field"] = json!(f);
        }
        if let Some(s) = slop {
          v["slop"] = json!(s);
        }
        v
      })
      .boxed()
  }

  /// words / field:word / -word / "quoted phrase" rendered with the README grammar
  pub fn query_string_text(&self, allow_phrase: bool, allow_fields: bool) -> BoxedStrategy<String> {
    let fopt: BoxedStrategy<Option<String>> = if allow_fields { proptest::option::weighted(0.3, self.any_text_field()).boxed() } else { Just(None).boxed() };
    let item = (self.word(), fopt, 0u32..10, self.word())
      .prop_map(move |(w, f, k, w2)| {
        let safe = |s: &str| -> String { s.chars().filter(|c| !c.is_whitespace() && *c != '"' && *c != ':' && *c != '-').collect() };
        let w = safe(&w);
        let w2 = safe(&w2);
        if w.is_empty() {
          return String::new();
        }
        let fielded = match &f {
          Some(f) => format!("{f}:{w}"),
          None => w.clone(),
        };
        match k {
          0 => format!("-{fielded}"),
          1 if allow_phrase && !w2.is_empty() => match &f {
            Some(f) => format!("\"{f}:{w} {w2}\""),
            None => format!("\"{w} {w2}\""),
          },
          _ => fielded,
        }
      });
    vec(item, 0..4).prop_map(|items| items.into_iter().filter(|s| !s.is_empty()).collect::<Vec<_>>().join(" ")).boxed()
  }

  pub fn query_string(&self) -> BoxedStrategy<Value> {
    let fields = if self.text.is_empty() { vec!["body".to_string()] } else { self.text.clone() };
    (self.query_string_text(self.phrases, true), proptest::option::weighted(0.4, proptest::sample::subsequence(fields.clone(), 1..=fields.len().max(1))), Self::boost())
      .prop_map(|(q, fs, b)| {
        let mut v = json!({"type": "query_string", "query": q});
        if let Some(fs) = fs {
          v["fields"] = json!(fs);
        }
        Self::with_boost(v, b)
      })
      .boxed()
  }

  pub fn multi_match(&self) -> BoxedStrategy<Value> {
    let fields = if self.text.is_empty() { vec!["body".to_string()] } else { self.text.clone() };
    let n = fields.len();
    (
      self.query_string_text(false, false),
      proptest::sample::subsequence(fields, 1..=n),
      select(vec!["best_fields", "most_fields", "cross_fields"]),
      proptest::option::of(select(vec!["or", "and"])),
      proptest::option::weighted(0.4, prop_oneof![(0u64..4).prop_map(|v| json!(v)), select(vec!["50%", "75%", "100%", "0%", "34%"]).prop_map(|s| json!(s))]),
      proptest::option::weighted(0.3, select(vec![0.0f64, 0.3, 1.0])),
      vec(Self::boost(), n),
    )
      .prop_map(|(q, fs, ty, op, msm, tie, boosts)| {
        let specs: Vec<Value> = fs.iter().enumerate().map(|(i, f)| match boosts[i] {
          Some(b) => json!({"field": f, "boost": b}),
          None => json!({"field": f}),
        }).collect();
        let mut v = json!({"type": "multi_match", "query": q, "fields": specs, "match_type": ty});
        if let Some(op) = op {
          v["operator"] = json!(op);
        }
        if let Some(m) = msm {
          v["minimum_should_match"] = m;
        }
        if let Some(t) = tie {
          v["tie_breaker"] = json!(t);
        }
        v
      })
      .boxed()
  }

  pub fn leaf(&self) -> BoxedStrategy<Value> {
    let mut opts: Vec<(u32, BoxedStrategy<Value>)> = vec![(8, self.term()), (4, self.query_string()), (3, self.multi_match()), (1, Just(json!({"type": "match_all"})).boxed())];
    if self.expansions {
      opts.push((4, self.pattern()));
    }
    if self.phrases {
      opts.push((3, self.phrase()));
    }
    if self.scoring {
      if !self.rank.is_empty() {
        opts.push((1, (select(self.rank.clone()), proptest::option::of(select(vec!["none", "log1p", "sqrt"]))).prop_map(|(f, m)| {
          let mut v = json!({"type": "rank_feature", "field": f});
          if let Some(m) = m {
            v["modifier"] = json!(m);
          }
          v
        }).boxed()));
      }
      opts.push((1, c08::root_filter(&self.schema, 1).prop_map(|f| json!({"type": "constant_score", "filter": f, "boost": 1.5})).boxed()));
    }
    proptest::strategy::Union::new_weighted(opts).boxed()
  }

  pub fn tree(&self, depth: usize) -> BoxedStrategy<Value> {
    if depth == 0 {
      return self.leaf();
    }
    let sub = self.tree(depth - 1);
    let filt = c08::root_filter(&self.schema, 1);
    let mut opts: Vec<(u32, BoxedStrategy<Value>)> = vec![
      (5, self.leaf()),
      (
        6,
        (vec(sub.clone(), 0..3), vec(sub.clone(), 0..3), vec(sub.clone(), 0..2), vec(filt, 0..2), proptest::option::weighted(0.3, 0u64..3), Self::boost())
          .prop_map(|(must, should, must_not, filter, msm, b)| {
            let mut v = json!({"type": "bool", "must": must, "should": should, "must_not": must_not, "filter": filter});
            if let Some(m) = msm {
              v["minimum_should_match"] = json!(m);
            }
            Self::with_boost(v, b)
          })
          .boxed(),
      ),
      (
        2,
        (vec(sub.clone(), 1..4), proptest::option::of(select(vec![0.0f64, 0.3, 1.0])))
          .prop_map(|(qs, tie)| {
            let mut v = json!({"type": "dis_max", "queries": qs});
            if let Some(t) = tie {
              v["tie_breaker"] = json!(t);
            }
            v
          })
          .boxed(),
      ),
    ];
    if self.scoring {
      let rank = self.rank.clone();
      opts.push((
        1,
        (sub.clone(), select(vec![0.5f64, 2.0, 10.0]), select(vec!["multiply", "sum", "replace", "max", "min"]), select(vec!["sum", "multiply", "max", "min", "avg"]), proptest::option::weighted(0.5, select(if rank.is_empty() { vec!["".to_string()] } else { rank.clone() })), proptest::option::weighted(0.4, select(vec!["exp", "gauss", "linear"])), proptest::option::weighted(0.3, c08::root_filter(&self.schema, 1)), proptest::option::weighted(0.2, select(vec![1.5f64, 4.0])), if self.min_score { proptest::option::weighted(0.4, select(vec![0.31f64, 0.83, 1.71, 3.13])).boxed() } else { Just(None::<f64>).boxed() })
          .prop_map(move |(q, w, bm, sm, fvf, decay, wfilter, max_boost, min_score)| {
            let mut wf = json!({"type": "weight", "weight": w});
            if let Some(f) = wfilter {
              wf["filter"] = f;
            }
            let mut functions = vec![wf];
            if let Some(f) = fvf {
              if !f.is_empty() {
                functions.push(json!({"type": "field_value_factor", "field": f, "factor": 0.5, "modifier": "log1p", "missing": 1.0}));
              }
            }
            if let (Some(d), Some(f)) = (decay, rank.first()) {
              functions.push(json!({"type": "decay", "field": f, "origin": 10.0, "scale": 5.0, "offset": 1.0, "decay": 0.5, "function": d}));
            }
            let mut v = json!({"type": "function_score", "query": q, "functions": functions, "boost_mode": bm, "score_mode": sm});
            if let Some(m) = min_score {
              v["min_score"] = json!(m);
            }
            // max_boost is left out: what it caps is not documented
            let _ = max_boost;
            v
          })
          .boxed(),
      ));
      opts.push((1, (sub.clone(), select(vec!["_score * 2 + 1", "_score + 0.5", "1 + _score * w"])).prop_map(|(q, s)| json!({"type": "script_score", "query": q, "script": s, "params": {"w": 3.0}})).boxed()));
    }
    proptest::strategy::Union::new_weighted(opts).boxed()
  }
}

/// Request-level fuzzy options.
pub fn fuzzy() -> BoxedStrategy<Option<Value>> {
  prop_oneof![
    3 => Just(None),
    2 => (0u64..4, 0u64..3, 2u64..5).prop_map(|(e, p, m)| Some(json!({"max_edits": e, "prefix_length": p, "min_length": m}))),
    1 => Just(Some(json!({}))),
  ]
  .boxed()
}
