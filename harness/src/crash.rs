//! Crash images from the real filesystem trace of `FsStorage` (hook: searchlite_core::verif), and the
//! multi-round crash/recovery interpreter shared by C01 and C02.
use std::collections::BTreeMap;
use std::path::{Path, PathBuf};
use std::sync::{Arc, Mutex};

use searchlite_core::api::{Index, IndexWriter};
use searchlite_core::verif::{FsEvent, Sink};
use serde::{Deserialize, Serialize};
use serde_json::{Map, Value};

use crate::gen::{self, SchemaSpec};
use crate::model::{apply_ops, normal, stored_projection, Contents, QOp};
use crate::sut::{self, StorageKind};

// ---------------------------------------------------------------------------------
// trace

#[derive(Clone, Debug)]
pub enum Ev {
  Fs(FsEvent),
  Begin(usize),
  End(usize),
}

#[derive(Default)]
pub struct Recorder {
  pub events: Mutex<Vec<Ev>>,
}

impl Sink for Recorder {
  fn event(&self, event: FsEvent) {
    self.events.lock().unwrap().push(Ev::Fs(event));
  }
}

impl Recorder {
  pub fn mark(&self, e: Ev) {
    self.events.lock().unwrap().push(e);
  }
}

// ---------------------------------------------------------------------------------
// filesystem model

#[derive(Clone, Debug)]
enum WOp {
  Write(Option<u64>, Vec<u8>),
  SetLen(u64),
}

#[derive(Clone, Debug, Default)]
struct Inode {
  durable: Vec<u8>,
  pending: Vec<WOp>,
}

#[derive(Clone, Debug)]
enum DirOp {
  Link(PathBuf, usize),
  Rename(PathBuf, PathBuf),
  Unlink(PathBuf),
}

#[derive(Clone, Debug, Default)]
pub struct FsModel {
  inodes: Vec<Inode>,
  cur: BTreeMap<PathBuf, usize>,
  dur: BTreeMap<PathBuf, usize>,
  pend_dir: Vec<DirOp>,
}

fn apply_wop(content: &mut Vec<u8>, op: &WOp, partial: Option<usize>) {
  match op {
    WOp::Write(off, data) => {
      let data = match partial {
        Some(n) => &data[..n.min(data.len())],
        None => &data[..],
      };
      let off = off.map(|o| o as usize).unwrap_or(content.len());
      if content.len() < off + data.len() {
        content.resize(off + data.len(), 0);
      }
      content[off..off + data.len()].copy_from_slice(data);
    }
    WOp::SetLen(len) => {
      if partial.is_none() {
        content.resize(*len as usize, 0);
      }
    }
  }
}

/// How much of the un-fsynced state survives: directory operations persist as a prefix (in issue
/// order) of those issued since the last directory fsync; each file keeps a prefix of its un-fsynced
/// data operations, the last of them possibly torn.
#[derive(Clone, Copy, Debug, Serialize, Deserialize)]
pub struct Persist {
  pub dir_cut: u16,
  pub file_seed: u32,
  /// 0 = per-file pseudo-random, 1 = nothing un-fsynced survives, 2 = everything survives
  pub mode: u8,
}

fn mix(a: u64, b: u64) -> u64 {
  let mut h = a ^ b.wrapping_mul(0x9E3779B97F4A7C15);
  h ^= h >> 31;
  h = h.wrapping_mul(0xD6E8FEB86659FD93);
  h ^ (h >> 29)
}

impl FsModel {
  /// Start from a directory on disk: everything in it is durable.
  pub fn from_dir(root: &Path) -> FsModel {
    let mut m = FsModel::default();
    if let Ok(rd) = std::fs::read_dir(root) {
      let mut names: Vec<PathBuf> = rd.flatten().map(|e| e.path()).filter(|p| p.is_file()).collect();
      names.sort();
      for p in names {
        let ino = m.inodes.len();
        m.inodes.push(Inode { durable: std::fs::read(&p).unwrap_or_default(), pending: Vec::new() });
        m.cur.insert(p.clone(), ino);
        m.dur.insert(p, ino);
      }
    }
    m
  }

  fn ensure(&mut self, path: &Path) -> usize {
    if let Some(i) = self.cur.get(path) {
      return *i;
    }
    let ino = self.inodes.len();
    self.inodes.push(Inode::default());
    self.cur.insert(path.to_path_buf(), ino);
    self.pend_dir.push(DirOp::Link(path.to_path_buf(), ino));
    ino
  }

  pub fn apply(&mut self, ev: &FsEvent) {
    match ev {
      FsEvent::Create { path } => {
        let existed = self.cur.contains_key(path);
        let ino = self.ensure(path);
        if existed {
          self.inodes[ino].pending.push(WOp::SetLen(0));
        }
      }
      FsEvent::OpenAppend { path } => {
        self.ensure(path);
      }
      FsEvent::Write { path, offset, data } => {
        let ino = self.ensure(path);
        self.inodes[ino].pending.push(WOp::Write(*offset, data.clone()));
      }
      FsEvent::SetLen { path, len } => {
        let ino = self.ensure(path);
        self.inodes[ino].pending.push(WOp::SetLen(*len));
      }
      FsEvent::Fsync { path } => {
        if let Some(&ino) = self.cur.get(path) {
          let mut c = std::mem::take(&mut self.inodes[ino].durable);
          for op in self.inodes[ino].pending.iter() {
            apply_wop(&mut c, op, None);
          }
          self.inodes[ino].durable = c;
          self.inodes[ino].pending.clear();
          // fsync of a file also makes its own, still pending, creation durable (as ext4/xfs/btrfs do)
          if let Some(pos) = self.pend_dir.iter().position(|d| matches!(d, DirOp::Link(_, i) if *i == ino)) {
            if let DirOp::Link(p, i) = self.pend_dir.remove(pos) {
              self.dur.insert(p, i);
            }
          }
        }
      }
      FsEvent::Rename { from, to } => {
        if let Some(ino) = self.cur.remove(from) {
          self.cur.insert(to.clone(), ino);
        }
        self.pend_dir.push(DirOp::Rename(from.clone(), to.clone()));
      }
      FsEvent::Unlink { path } => {
        self.cur.remove(path);
        self.pend_dir.push(DirOp::Unlink(path.clone()));
      }
      FsEvent::FsyncDir { .. } => {
        let ops = std::mem::take(&mut self.pend_dir);
        Self::apply_dir(&mut self.dur, &ops);
      }
      FsEvent::RemoveDirAll { .. } | FsEvent::Mkdir { .. } => {}
    }
  }

  fn apply_dir(dir: &mut BTreeMap<PathBuf, usize>, ops: &[DirOp]) {
    for op in ops {
      match op {
        DirOp::Link(p, i) => {
          dir.insert(p.clone(), *i);
        }
        DirOp::Rename(a, b) => {
          if let Some(i) = dir.remove(a) {
            dir.insert(b.clone(), i);
          }
        }
        DirOp::Unlink(p) => {
          dir.remove(p);
        }
      }
    }
  }

  pub fn unsynced(&self) -> bool {
    !self.pend_dir.is_empty() || self.inodes.iter().any(|i| !i.pending.is_empty())
  }

  /// The files a crash now could leave behind.
  pub fn image(&self, p: Persist) -> BTreeMap<PathBuf, Vec<u8>> {
    let mut dir = self.dur.clone();
    let cut = match p.mode {
      1 => 0,
      2 => self.pend_dir.len(),
      _ => (p.dir_cut as usize * (self.pend_dir.len() + 1)) >> 16,
    };
    Self::apply_dir(&mut dir, &self.pend_dir[..cut]);
    let mut out = BTreeMap::new();
    for (path, ino) in dir.iter() {
      let node = &self.inodes[*ino];
      let mut c = node.durable.clone();
      let n = node.pending.len();
      if n > 0 {
        let h = mix(p.file_seed as u64, *ino as u64 + 1);
        let (full, partial): (usize, Option<usize>) = match p.mode {
          1 => (0, None),
          2 => (n, None),
          _ => match h % 4 {
            0 => (0, None),
            1 => (n, None),
            _ => {
              let k = ((h >> 8) % n as u64) as usize;
              let len = match &node.pending[k] {
                WOp::Write(_, d) => d.len(),
                WOp::SetLen(_) => 0,
              };
              (k, if len > 0 { Some(((h >> 24) % (len as u64 + 1)) as usize) } else { None })
            }
          },
        };
        for op in node.pending[..full].iter() {
          apply_wop(&mut c, op, None);
        }
        if let Some(t) = partial {
          if full < n {
            apply_wop(&mut c, &node.pending[full], Some(t));
          }
        }
      }
      out.insert(path.clone(), c);
    }
    out
  }
}

pub fn materialize(root: &Path, image: &BTreeMap<PathBuf, Vec<u8>>) -> std::io::Result<()> {
  let _ = std::fs::remove_dir_all(root);
  std::fs::create_dir_all(root)?;
  for (p, bytes) in image.iter() {
    if let Some(parent) = p.parent() {
      std::fs::create_dir_all(parent)?;
    }
    std::fs::write(p, bytes)?;
  }
  Ok(())
}

// ---------------------------------------------------------------------------------
// histories, rounds, the model

#[derive(Clone, Debug, Serialize, Deserialize)]
pub enum Op {
  Add(String, Map<String, Value>),
  Delete(Vec<String>),
  Commit,
  Rollback,
  /// drop the writer handle (syncs the log when operations are queued)
  DropWriter,
  Compact,
}

impl Op {
  pub fn label(&self) -> &'static str {
    match self {
      Op::Add(..) => "add",
      Op::Delete(..) => "delete",
      Op::Commit => "commit",
      Op::Rollback => "rollback",
      Op::DropWriter => "drop-writer",
      Op::Compact => "compact",
    }
  }
}

#[derive(Clone, Debug, Serialize, Deserialize)]
pub struct CrashPlan {
  /// where: 0 = anywhere, 1 = inside a commit / compaction / rollback, 2 = right after a call returned
  pub region: u8,
  pub at: u32,
  pub persist: Persist,
}

#[derive(Clone, Debug, Serialize, Deserialize)]
pub struct Round {
  pub ops: Vec<Op>,
  pub crashes: Vec<CrashPlan>,
}

pub fn schema() -> SchemaSpec {
  SchemaSpec::simple()
}

pub type View = BTreeMap<String, Option<Value>>;

pub fn model_view(c: &Contents) -> View {
  let s = schema();
  c.iter().map(|(k, d)| (k.clone(), normal(&stored_projection(&s, d)))).collect()
}

#[derive(Clone, Debug)]
struct CallRec {
  begin: usize,
  end: usize,
  label: &'static str,
  s_before: Contents,
  s_after: Contents,
  q_before: Vec<QOp>,
  q_after: Vec<QOp>,
  /// index (into q_after) of the operation this add/delete call queued: [from, to)
  queued: (usize, usize),
}

/// What the statement allows at one crash point.
pub struct Allowed {
  /// committed contents a reader may show (C01)
  pub states: Vec<Contents>,
  /// the queue a new writer may recover: a prefix of `queue` of at least `min_len` operations,
  /// or (in-flight commit already published / rollback) `also_empty`
  pub queue: Vec<QOp>,
  pub min_len: usize,
  pub also_empty: bool,
  pub in_flight: Option<&'static str>,
  pub unsynced: bool,
}

pub struct Traced {
  pub events: Vec<Ev>,
  calls: Vec<CallRec>,
  pub s_end: Contents,
  pub q_end: Vec<QOp>,
  wal: PathBuf,
}

pub fn open_index(root: &Path) -> anyhow::Result<Index> {
  let storage = sut::make_storage(root, StorageKind::Fs);
  Index::open_with_storage(sut::default_options(root, StorageKind::Fs), storage)
}

/// Runs `ops` on the index at `root` (which holds committed contents `s0` and a log with `q0`) with
/// the filesystem trace installed.
pub fn run_traced(root: &Path, s0: &Contents, q0: &[QOp], ops: &[Op]) -> anyhow::Result<Traced> {
  // the index exists before the traced part starts (creating an index is not a commit)
  if !root.join("MANIFEST.json").exists() {
    let storage = sut::make_storage(root, StorageKind::Fs);
    drop(sut::create_index(root, &schema(), sut::default_options(root, StorageKind::Fs), storage)?);
  }
  let rec = Arc::new(Recorder::default());
  let _guard = searchlite_core::verif::install(rec.clone());
  let idx = open_index(root)?;
  let mut writer: Option<IndexWriter> = None;
  let mut s = s0.clone();
  let mut q: Vec<QOp> = q0.to_vec();
  let mut calls = Vec::new();
  for (i, op) in ops.iter().enumerate() {
    let begin = {
      let mut e = rec.events.lock().unwrap();
      e.push(Ev::Begin(i));
      e.len() - 1
    };
    let (s_before, q_before) = (s.clone(), q.clone());
    let mut queued = (q.len(), q.len());
    match op {
      Op::Add(id, body) => {
        if writer.is_none() {
          writer = Some(idx.writer()?);
        }
        let doc = gen::with_id(&schema(), id, body.clone());
        writer.as_mut().unwrap().add_document(&sut::document(&doc))?;
        q.push(QOp::Add(id.clone(), doc));
        queued.1 = q.len();
      }
      Op::Delete(ids) => {
        if writer.is_none() {
          writer = Some(idx.writer()?);
        }
        writer.as_mut().unwrap().delete_documents(ids)?;
        q.extend(ids.iter().map(|i| QOp::Del(i.clone())));
        queued.1 = q.len();
      }
      Op::Commit => {
        if writer.is_none() {
          writer = Some(idx.writer()?);
        }
        writer.as_mut().unwrap().commit()?;
        apply_ops(&mut s, &q);
        q.clear();
      }
      Op::Rollback => {
        if writer.is_none() {
          writer = Some(idx.writer()?);
        }
        writer.as_mut().unwrap().rollback()?;
        q.clear();
      }
      Op::DropWriter => {
        writer = None;
      }
      Op::Compact => {
        idx.compact()?;
      }
    }
    let end = {
      let mut e = rec.events.lock().unwrap();
      e.push(Ev::End(i));
      e.len() - 1
    };
    calls.push(CallRec { begin, end, label: op.label(), s_before, s_after: s.clone(), q_before, q_after: q.clone(), queued });
  }
  // the process dies here: the writer is not dropped in an orderly way as far as the trace is concerned
  // (the trace is cut here; what the drop below does to the real files does not matter, every
  // recovery starts from an image rebuilt from the trace)
  let events = rec.events.lock().unwrap().clone();
  drop(writer);
  drop(idx);
  Ok(Traced { events, calls, s_end: s, q_end: q, wal: root.join("wal.log") })
}

impl Traced {
  /// crash points of interest: number of events that happened before the crash
  pub fn pick(&self, plan: &CrashPlan) -> usize {
    let n = self.events.len();
    let scale = |len: usize| -> usize { ((plan.at as u64 * len as u64) >> 32) as usize };
    match plan.region {
      1 => {
        let inside: Vec<usize> = self.calls.iter().filter(|c| matches!(c.label, "commit" | "compact" | "rollback" | "drop-writer")).flat_map(|c| (c.begin + 1)..=c.end).collect();
        if inside.is_empty() {
          scale(n + 1)
        } else {
          inside[scale(inside.len())]
        }
      }
      2 => {
        if self.calls.is_empty() {
          scale(n + 1)
        } else {
          self.calls[scale(self.calls.len())].end + 1
        }
      }
      _ => scale(n + 1),
    }
  }

  pub fn model_at(&self, c: usize) -> FsModelAt {
    FsModelAt { c }
  }

  pub fn fs_at(&self, start: &FsModel, c: usize) -> FsModel {
    let mut m = start.clone();
    for e in self.events[..c].iter() {
      if let Ev::Fs(f) = e {
        m.apply(f);
      }
    }
    m
  }

  /// What is allowed when exactly the first `c` events happened; `s0`/`q0` are the round's start.
  pub fn allowed(&self, c: usize, s0: &Contents, q0: &[QOp]) -> Allowed {
    // last completed call, call in flight
    let done = self.calls.iter().filter(|k| k.end < c).last();
    let flying = self.calls.iter().find(|k| k.begin < c && k.end >= c);
    let (s_now, q_now) = match done {
      Some(k) => (k.s_after.clone(), k.q_after.clone()),
      None => (s0.clone(), q0.to_vec()),
    };
    // last fsync of the log before the crash
    let last_sync = self.events[..c].iter().rposition(|e| matches!(e, Ev::Fs(FsEvent::Fsync { path }) if *path == self.wal));
    // operations of the current queue that were acknowledged before that fsync (operations inherited
    // from the round's start were durable already)
    let synced_in = |queue_len: usize, upto_call_end: Option<usize>| -> usize {
      let inherited = if self.calls.iter().any(|k| (k.label == "commit" || k.label == "rollback") && k.end < c) { 0 } else { q0.len() };
      let mut n = inherited.min(queue_len);
      if let Some(f) = last_sync {
        // calls since the last commit/rollback that finished before the fsync
        let since = self.calls.iter().rposition(|k| (k.label == "commit" || k.label == "rollback") && k.end < c).map(|i| i + 1).unwrap_or(0);
        for k in self.calls[since..].iter() {
          if let Some(lim) = upto_call_end {
            if k.begin >= lim {
              break;
            }
          }
          if (k.label == "add" || k.label == "delete") && k.end < f {
            n = n.max(k.queued.1);
          }
        }
      }
      // the API contract, independent of what was observed: dropping the writer is a log sync, so every
      // operation queued when a drop-writer call returned (since the last commit / rollback) is durable
      let since = self.calls.iter().rposition(|k| (k.label == "commit" || k.label == "rollback") && k.end < c).map(|i| i + 1).unwrap_or(0);
      for k in self.calls[since..].iter() {
        if k.label == "drop-writer" && k.end < c {
          n = n.max(k.q_after.len());
        }
      }
      n.min(queue_len)
    };
    let unsynced = true;
    match flying {
      None => Allowed { states: vec![s_now], min_len: synced_in(q_now.len(), None), queue: q_now, also_empty: false, in_flight: None, unsynced },
      Some(k) => match k.label {
        "commit" => {
          let min_len = synced_in(k.q_before.len(), Some(k.begin));
          Allowed { states: vec![k.s_before.clone(), k.s_after.clone()], queue: k.q_before.clone(), min_len, also_empty: true, in_flight: Some("commit"), unsynced }
        }
        "rollback" => Allowed { states: vec![k.s_before.clone()], queue: k.q_before.clone(), min_len: 0, also_empty: true, in_flight: Some("rollback"), unsynced },
        "add" | "delete" => {
          // the operation in flight may or may not have reached the log
          let min_len = synced_in(k.q_before.len(), Some(k.begin));
          Allowed { states: vec![k.s_before.clone()], queue: k.q_after.clone(), min_len, also_empty: false, in_flight: Some(k.label), unsynced }
        }
        other => {
          let min_len = synced_in(k.q_before.len(), Some(k.begin));
          Allowed { states: vec![k.s_before.clone()], queue: k.q_before.clone(), min_len, also_empty: false, in_flight: Some(other), unsynced }
        }
      },
    }
  }
}

pub struct FsModelAt {
  pub c: usize,
}

/// The queue a new writer would recover, read through the public WAL API.
pub fn recovered_queue(root: &Path) -> anyhow::Result<Vec<QOp>> {
  let storage = sut::make_storage(root, StorageKind::Fs);
  let entries = searchlite_core::wal::Wal::last_pending_ops(storage.as_ref(), &root.join("wal.log"))?;
  let s = schema();
  let mut out = Vec::new();
  for e in entries {
    match e {
      searchlite_core::wal::WalEntry::AddDoc(d) => {
        let v = Value::Object(d.fields.iter().map(|(k, v)| (k.clone(), v.clone())).collect());
        let id = v.get(&s.doc_id_field).and_then(|x| x.as_str()).unwrap_or("").to_string();
        out.push(QOp::Add(id, v));
      }
      searchlite_core::wal::WalEntry::DeleteDocId(id) => out.push(QOp::Del(id)),
      searchlite_core::wal::WalEntry::Commit => {}
    }
  }
  Ok(out)
}

pub fn reader_view(idx: &Index, n: usize) -> anyhow::Result<View> {
  let r = idx.reader()?;
  let (got, _) = sut::contents(&r, n)?;
  let mut v = View::new();
  for (id, f) in got {
    if v.insert(id.clone(), normal(&f)).is_some() {
      anyhow::bail!("id {id} returned twice");
    }
  }
  Ok(v)
}
