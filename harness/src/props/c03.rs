//! C03 — storage errors leave committed state unchanged or fully applied; no single or double
//! storage failure leaves the index unopenable.
use std::collections::BTreeMap;
use std::sync::atomic::Ordering;
use std::sync::Arc;

use proptest::collection::vec;
use proptest::prelude::*;
use proptest::sample::select;
use serde::{Deserialize, Serialize};
use serde_json::{Map, Value};

use searchlite_core::api::{Index, IndexWriter};
use searchlite_core::storage::Storage;

use crate::engine::{fingerprint, Ctx, Outcome, Plan, Property, Tier};
use crate::faultfs::{FaultState, FaultyStorage, Mode};
use crate::gen::{self, DocOpts, SchemaSpec, TextOpts};
use crate::model::{normal, stored_projection, Contents, QOp};
use crate::sut::{self, Scratch, StorageKind};

#[derive(Clone, Debug, Serialize, Deserialize)]
pub enum Op {
  Add(String, Map<String, Value>),
  Delete(Vec<String>),
  Commit,
  Rollback,
  Compact,
  /// drop the writer handle and open a new one (inherits the log)
  NewWriter,
  /// drop everything and open the index again from storage
  Reopen,
}

impl Op {
  fn label(&self) -> &'static str {
    match self {
      Op::Add(..) => "add",
      Op::Delete(..) => "delete",
      Op::Commit => "commit",
      Op::Rollback => "rollback",
      Op::Compact => "compact",
      Op::NewWriter => "new-writer",
      Op::Reopen => "reopen",
    }
  }
}

/// (call selector scaled into the fault-free run's call count, mode, optional second fault this many calls later)
pub type FaultPlan = (u32, Mode, Option<(u8, Mode)>);

#[derive(Clone, Debug, Serialize, Deserialize)]
pub struct Case {
  pub storage: StorageKind,
  pub ops: Vec<Op>,
  pub plans: Vec<FaultPlan>,
  /// enumerate every call index x every mode (single faults) instead of `plans`
  pub exhaustive: bool,
}

pub struct C03;

pub const SIG_TORN_WAL: &str = "acknowledged-operation-lost-behind-torn-log-record";

fn schema() -> SchemaSpec {
  SchemaSpec::simple()
}

struct World {
  idx: Index,
  writer: Option<IndexWriter>,
  committed: Contents,
  queue: Vec<QOp>,
  state: Arc<FaultState>,
  faulty: Arc<dyn Storage>,
  inner: Arc<dyn Storage>,
  opts: searchlite_core::api::types::IndexOptions,
}

fn apply(committed: &mut Contents, ops: &[QOp]) {
  crate::model::apply_ops(committed, ops)
}

fn view(contents: &[(String, Value)]) -> BTreeMap<String, Option<Value>> {
  contents.iter().map(|(k, v)| (k.clone(), normal(v))).collect()
}

fn model_view(c: &Contents) -> BTreeMap<String, Option<Value>> {
  let s = schema();
  c.iter().map(|(k, d)| (k.clone(), normal(&stored_projection(&s, d)))).collect()
}

impl World {
  fn ensure_writer(&mut self) -> anyhow::Result<()> {
    if self.writer.is_none() {
      self.writer = Some(self.idx.writer()?);
    }
    Ok(())
  }

  fn exec(&mut self, op: &Op) -> anyhow::Result<()> {
    match op {
      Op::Add(id, body) => {
        self.ensure_writer()?;
        let doc = gen::with_id(&schema(), id, body.clone());
        self.writer.as_mut().unwrap().add_document(&sut::document(&doc))?;
      }
      Op::Delete(ids) => {
        self.ensure_writer()?;
        self.writer.as_mut().unwrap().delete_documents(ids)?;
      }
      Op::Commit => {
        self.ensure_writer()?;
        self.writer.as_mut().unwrap().commit()?;
      }
      Op::Rollback => {
        self.ensure_writer()?;
        self.writer.as_mut().unwrap().rollback()?;
      }
      Op::Compact => self.idx.compact()?,
      Op::NewWriter => {
        self.writer = None;
        self.writer = Some(self.idx.writer()?);
      }
      Op::Reopen => {
        self.writer = None;
        self.idx = Index::open_with_storage(self.opts.clone(), self.faulty.clone())?;
      }
    }
    Ok(())
  }

  fn apply_model(&mut self, op: &Op) {
    match op {
      Op::Add(id, body) => self.queue.push(QOp::Add(id.clone(), gen::with_id(&schema(), id, body.clone()))),
      Op::Delete(ids) => self.queue.extend(ids.iter().map(|i| QOp::Del(i.clone()))),
      Op::Commit => {
        let q = std::mem::take(&mut self.queue);
        apply(&mut self.committed, &q);
      }
      Op::Rollback => self.queue.clear(),
      Op::Compact | Op::NewWriter | Op::Reopen => {}
    }
  }

  /// committed contents as seen by a new reader of the live Index and by a fresh open of the storage
  fn views(&self) -> Result<[BTreeMap<String, Option<Value>>; 2], String> {
    let was = self.state.enabled.swap(false, Ordering::SeqCst);
    let r = (|| {
      let n = self.committed.len() + self.queue.len() + 20;
      let live = self.idx.reader().and_then(|r| sut::contents(&r, n)).map_err(|e| format!("a new reader of the live index fails: {e:#}"))?;
      let fresh = Index::open_with_storage(self.opts.clone(), self.inner.clone()).and_then(|i| i.reader()).and_then(|r| sut::contents(&r, n)).map_err(|e| format!("opening the index again from storage fails: {e:#}"))?;
      Ok([view(&live.0), view(&fresh.0)])
    })();
    self.state.enabled.store(was, Ordering::SeqCst);
    r
  }
}

enum TrialEnd {
  Ok { fired: Vec<(u64, String, String)> },
  Fail(String, String),
}

fn run_trial(case: &Case, faults: &[(u64, Mode)], count_only: bool) -> (TrialEnd, u64) {
  let scratch = Scratch::new("c03");
  let root = scratch.sub("idx");
  let inner = sut::make_storage(&root, case.storage);
  let state = FaultState::new();
  let faulty: Arc<dyn Storage> = Arc::new(FaultyStorage::new(inner.clone(), state.clone()));
  let opts = sut::default_options(&root, case.storage);
  let idx = match sut::create_index(&root, &schema(), opts.clone(), faulty.clone()) {
    Ok(i) => i,
    Err(e) => return (TrialEnd::Fail("create-failed".into(), format!("{e:#}")), 0),
  };
  let mut w = World { idx, writer: None, committed: Contents::new(), queue: Vec::new(), state: state.clone(), faulty, inner, opts };
  *state.plan.lock().unwrap() = faults.to_vec();
  state.enabled.store(true, Ordering::SeqCst);
  let describe = |w: &World, step: usize, op: &Op| format!("step {step} ({}) of {:?}; faults fired so far {:?}", op.label(), case.ops.iter().map(|o| o.label()).collect::<Vec<_>>(), w.state.fired.lock().unwrap());
  for (step, op) in case.ops.iter().enumerate() {
    state.set_label(op.label());
    let mut attempts = 0usize;
    loop {
      let fired_before = state.fired.lock().unwrap().len();
      let before = w.committed.clone();
      let res = w.exec(op);
      let fired_count = state.fired.lock().unwrap().len() - fired_before;
      let fired_now = fired_count > 0;
      // two faults inside one call: the statement only promises that the index stays openable and
      // does not refer to missing files (its first sentence speaks of one failing operation)
      let double_in_call = fired_count >= 2;
      match res {
        Ok(()) => {
          w.apply_model(op);
          break;
        }
        Err(e) => {
          if count_only {
            return (TrialEnd::Fail("call-fails-without-fault".into(), format!("{}: {e:#}", describe(&w, step, op))), 0);
          }
          if !fired_now {
            return (TrialEnd::Fail("call-keeps-failing-after-the-storage-recovered".into(), format!("{}: attempt {} returned an error although no fault was injected during it: {e:#}", describe(&w, step, op), attempts + 1)), 0);
          }
          // an error: committed contents must be unchanged in both views
          match w.views() {
            Err(msg) => return (TrialEnd::Fail("index-unusable-after-failed-call".into(), format!("{}: the call returned an error ({e:#}) and then {msg}", describe(&w, step, op))), 0),
            Ok(views) => {
              let want = model_view(&before);
              for (which, v) in ["a new reader of the live index", "the index opened again from storage"].iter().zip(views.iter()) {
                if *v != want {
                  let mut after = before.clone();
                  apply(&mut after, &w.queue);
                  if double_in_call && *v == model_view(&after) {
                    continue; // openable and complete: either state is acceptable after a double failure
                  }
                  let sig = if matches!(op, Op::Commit) && *v == model_view(&after) { "commit-reports-error-but-is-applied" } else { "failed-call-changed-committed-contents" };
                  return (TrialEnd::Fail(sig.into(), format!("{}: the call returned an error ({e:#}) but {which} shows ids {:?} instead of the unchanged {:?}", describe(&w, step, op), v.keys().collect::<Vec<_>>(), want.keys().collect::<Vec<_>>())), 0);
                }
              }
            }
          }
          attempts += 1;
          if attempts > faults.len() + 1 {
            return (TrialEnd::Fail("call-keeps-failing-after-the-storage-recovered".into(), format!("{}: still failing after {attempts} attempts: {e:#}", describe(&w, step, op))), 0);
          }
        }
      }
    }
    // a call that returned success: its effects are fully applied (committed contents in both views)
    if matches!(op, Op::Commit | Op::Rollback | Op::Compact | Op::Reopen | Op::NewWriter) && !count_only {
      match w.views() {
        Err(msg) => return (TrialEnd::Fail("index-unusable-after-successful-call".into(), format!("{}: {msg}", describe(&w, step, op))), 0),
        Ok(views) => {
          let want = model_view(&w.committed);
          for (which, v) in ["a new reader of the live index", "the index opened again from storage"].iter().zip(views.iter()) {
            if *v != want {
              // acknowledged operations that a new writer no longer finds behind a torn record?
              let lost: Vec<&String> = want.keys().filter(|k| !v.contains_key(*k)).collect();
              let torn = state.fired.lock().unwrap().iter().any(|(_, what, label)| what == "file.write" && (label == "add" || label == "delete"));
              let sig = if matches!(op, Op::Commit) && torn && !lost.is_empty() { SIG_TORN_WAL } else { "successful-call-not-fully-applied" };
              return (TrialEnd::Fail(sig.into(), format!("{}: the call returned success but {which} shows ids {:?}, expected {:?}", describe(&w, step, op), v.keys().collect::<Vec<_>>(), want.keys().collect::<Vec<_>>())), 0);
            }
          }
        }
      }
    }
  }
  let calls = state.calls.load(Ordering::SeqCst);
  state.enabled.store(false, Ordering::SeqCst);
  if !count_only {
    // final: everything committed is there, the queue commits on a healthy storage
    w.writer = None;
    let end: anyhow::Result<BTreeMap<String, Option<Value>>> = (|| {
      let idx = Index::open_with_storage(w.opts.clone(), w.inner.clone())?;
      let mut wr = idx.writer()?;
      wr.commit()?;
      drop(wr);
      let r = idx.reader()?;
      Ok(view(&sut::contents(&r, w.committed.len() + w.queue.len() + 20)?.0))
    })();
    let mut want = w.committed.clone();
    apply(&mut want, &w.queue);
    match end {
      Err(e) => return (TrialEnd::Fail("index-unusable-at-the-end".into(), format!("after the history {:?} with faults {:?}: open + writer + commit + search on the healthy storage fails: {e:#}", case.ops.iter().map(|o| o.label()).collect::<Vec<_>>(), state.fired.lock().unwrap())), calls),
      Ok(got) => {
        if got != model_view(&want) {
          let torn = state.fired.lock().unwrap().iter().any(|(_, what, label)| what == "file.write" && (label == "add" || label == "delete"));
          let sig = if torn { SIG_TORN_WAL } else { "queued-operations-lost-or-changed" };
          return (TrialEnd::Fail(sig.into(), format!("after the history {:?} with faults {:?}: a new writer's commit gives ids {:?}, expected {:?}", case.ops.iter().map(|o| o.label()).collect::<Vec<_>>(), state.fired.lock().unwrap(), got.keys().collect::<Vec<_>>(), model_view(&want).keys().collect::<Vec<_>>())), calls);
        }
      }
    }
  }
  let fired = state.fired.lock().unwrap().clone();
  (TrialEnd::Ok { fired }, calls)
}

impl Property for C03 {
  type Case = Case;
  const ID: &'static str = "C03";
  const LEVEL: &'static str = "fault_enumeration";
  fn rule() -> String {
    "cases = a history of 3-14 calls (add, delete, commit, rollback, compact, new writer handle, reopen) on a storage wrapper that fails chosen storage-level calls (Storage trait methods and file-handle read/write/flush/seek/set_len/sync_all) before their effect, after it, or after half of a write; fault plans: quick 14 per history (single faults, and double faults with the second 1-12 calls after the first); thorough additionally EVERY call index of the fault-free run x 3 modes for a quarter of the histories. Per faulted API call: Err => a new reader of the live index and a fresh open from storage both show the committed contents unchanged, then the same call is retried and must succeed once no fault is injected; Ok => its effects are fully visible in both views; at the end open + new writer + commit on the healthy storage must give committed + queued operations. Non-trivial = a fault fired inside commit, compact or rollback; distinct = hash of (history, fault plan)".into()
  }
  fn assumptions() -> Vec<String> {
    vec![
      "a failed add/delete is retried at once (whether the failed attempt itself was queued is not judged: the retry makes it queued either way)".into(),
      "atomic_write is atomic by contract: the wrapper fails it with the old content (before) or the new content (after) in place".into(),
      "the oracle's own reads do not count as storage calls and never fail".into(),
    ]
  }
  fn plan(tier: Tier) -> Plan {
    Plan { workers: 16, cases_per_worker: tier.pick(120, 1500) }
  }
  fn shrink_iters() -> u32 {
    800
  }
  fn exhaustive(tier: Tier) -> bool {
    tier == Tier::Thorough
  }
  fn strategy(tier: Tier) -> BoxedStrategy<Case> {
    let s = schema();
    let docopts = DocOpts { text: TextOpts { max_words: 3, odd: false, vocab: 8 }, max_multi: 2, absent: 3, max_nested_objs: 0, null_items: false, extremes: false };
    let op = prop_oneof![
      10 => (gen::doc_id(6), gen::doc_body(&s, docopts)).prop_map(|(i, b)| Op::Add(i, b)),
      3 => vec(gen::doc_id(7), 1..3).prop_map(Op::Delete),
      6 => Just(Op::Commit),
      1 => Just(Op::Rollback),
      2 => Just(Op::Compact),
      2 => Just(Op::NewWriter),
      1 => Just(Op::Reopen),
    ];
    let mode = select(vec![Mode::Before, Mode::After, Mode::Half]);
    let plan = (any::<u32>(), mode.clone(), proptest::option::weighted(0.4, (1u8..13, mode)));
    let storage = prop_oneof![3 => Just(StorageKind::Mem), 1 => Just(StorageKind::Fs)];
    let ex: BoxedStrategy<bool> = if tier == Tier::Thorough { prop::bool::weighted(0.25).boxed() } else { Just(false).boxed() };
    (storage, vec(op, 3..14), vec(plan, 14), ex).prop_map(|(storage, ops, plans, exhaustive)| Case { storage, ops, plans, exhaustive }).boxed()
  }
  fn run(case: &Case, ctx: &Ctx) -> Outcome {
    let mut out = Outcome::new();
    // fault-free run: number of storage calls, and a sanity check of the model
    out.evals = 1;
    let n = match run_trial(case, &[], true) {
      (TrialEnd::Ok { .. }, n) => n,
      (TrialEnd::Fail(sig, detail), _) => {
        out.fail(format!("fault-free:{sig}"), detail);
        return out;
      }
    };
    match run_trial(case, &[], false) {
      (TrialEnd::Ok { .. }, _) => {}
      (TrialEnd::Fail(sig, detail), _) => {
        out.fail(format!("fault-free:{sig}"), detail);
        return out;
      }
    }
    if n == 0 {
      return out;
    }
    let mut plans: Vec<Vec<(u64, Mode)>> = Vec::new();
    if case.exhaustive {
      for k in 0..n {
        for m in [Mode::Before, Mode::After, Mode::Half] {
          plans.push(vec![(k, m)]);
        }
      }
    } else {
      for (sel, m, second) in case.plans.iter() {
        let k = (*sel as u64 * n) >> 32;
        let mut p = vec![(k, *m)];
        if let Some((d, m2)) = second {
          p.push((k + *d as u64, *m2));
        }
        plans.push(p);
      }
    }
    out.class(format!("storage:{:?}", case.storage));
    let known_torn = ctx.is_known(Self::ID, SIG_TORN_WAL);
    for p in plans.iter() {
      out.evals += 1;
      match run_trial(case, p, false) {
        (TrialEnd::Ok { fired }, _) => {
          if fired.is_empty() {
            out.class("fault-not-reached");
          }
          for (_, what, label) in fired.iter() {
            out.class(format!("fault-in:{label}"));
            if label == "commit" || label == "compact" || label == "rollback" {
              out.nontrivial(fingerprint(&(format!("{:?}", case.ops), format!("{p:?}"), what.clone())));
            }
          }
          if fired.len() >= 2 {
            out.class("double-fault");
          }
        }
        (TrialEnd::Fail(sig, detail), _) => {
          let known = sig == SIG_TORN_WAL && known_torn;
          out.fail(sig, format!("fault plan {p:?} (of {n} storage calls): {detail}"));
          if known {
            out.excluded_known += 1;
            continue;
          }
          return out;
        }
      }
    }
    out
  }
}
