//! C29 — vector and hybrid search return correctly scored, filtered hits (harness built with
//! `--features vectors`).
use proptest::collection::vec;
use proptest::prelude::*;
use proptest::sample::select;
use serde::{Deserialize, Serialize};
use serde_json::{json, Value};

use crate::engine::{fingerprint_json, Ctx, Outcome, Plan, Property, Tier};
use crate::fmodel;
use crate::gen::SchemaSpec;
use crate::rank::close;
use crate::sut::{self, Scratch, StorageKind};

#[derive(Clone, Debug, Serialize, Deserialize)]
pub struct Doc {
  pub body: String,
  pub tag: Option<String>,
  pub year: Option<i64>,
  /// None = field absent, Some(None) = null, Some(Some(v)) = vector
  pub emb: Option<Option<Vec<f32>>>,
}

#[derive(Clone, Debug, Serialize, Deserialize)]
pub struct Case {
  pub dim: usize,
  pub cosine: bool,
  pub hnsw: Option<(usize, usize)>,
  pub docs: Vec<Doc>,
  /// commit sizes (normalised), each segment holds at most `m` vectors in the exactness regime
  pub commits: Vec<usize>,
  pub deletes: Vec<usize>,
  pub query: Vec<f32>,
  pub limit: usize,
  pub k_extra: Option<usize>,
  pub boost: Option<f32>,
  pub filter: Option<Value>,
  pub vector_filter: Option<Value>,
  /// hybrid: (text query, alpha, legacy tuple form)
  pub hybrid: Option<(String, f32, bool)>,
  /// a wrong-dimension probe: 0 none, 1 query vector, 2 document vector
  pub wrong_dim: u8,
}

pub struct C29;

fn schema_spec() -> SchemaSpec {
  SchemaSpec::simple()
}

fn schema_json(case: &Case) -> Value {
  let mut s = schema_spec().to_json();
  let mut vf = json!({"name": "emb", "dim": case.dim, "metric": if case.cosine { "Cosine" } else { "L2" }});
  if let Some((m, efc)) = case.hnsw {
    vf["hnsw"] = json!({"m": m, "ef_construction": efc});
  }
  s["vector_fields"] = json!([vf]);
  s
}

fn doc_json(i: usize, d: &Doc) -> Value {
  let mut v = json!({"_id": format!("v{i:03}"), "body": d.body});
  if let Some(t) = &d.tag {
    v["tag"] = json!(t);
  }
  if let Some(y) = d.year {
    v["year"] = json!(y);
  }
  match &d.emb {
    None => {}
    Some(None) => v["emb"] = Value::Null,
    Some(Some(e)) => v["emb"] = json!(e),
  }
  v
}

fn similarity(cosine: bool, q: &[f32], d: &[f32]) -> f32 {
  if cosine {
    let n = |v: &[f32]| v.iter().map(|x| x * x).sum::<f32>().sqrt();
    let (nq, nd) = (n(q), n(d));
    if nq == 0.0 || nd == 0.0 {
      return 0.0;
    }
    q.iter().zip(d.iter()).map(|(a, b)| (a / nq) * (b / nd)).sum()
  } else {
    -q.iter().zip(d.iter()).map(|(a, b)| (a - b) * (a - b)).sum::<f32>().sqrt()
  }
}

fn normalise(weights: &[usize], n: usize, cap: usize) -> Vec<usize> {
  let total: usize = weights.iter().sum();
  let mut commits: Vec<usize> = weights.iter().map(|w| w * n / total.max(1)).collect();
  let assigned: usize = commits.iter().sum();
  if let Some(last) = commits.last_mut() {
    *last += n - assigned;
  }
  // split anything above the cap
  let mut out = Vec::new();
  for c in commits {
    let mut c = c;
    while c > cap {
      out.push(cap);
      c -= cap;
    }
    if c > 0 {
      out.push(c);
    }
  }
  if out.is_empty() {
    out.push(n);
  }
  out
}

fn vecf(dim: usize) -> BoxedStrategy<Vec<f32>> {
  vec(prop_oneof![4 => (-40i32..41).prop_map(|v| v as f32 * 0.25), 1 => (-2i32..3).prop_map(|v| v as f32)], dim).boxed()
}

impl Property for C29 {
  type Case = Case;
  const ID: &'static str = "C29";
  fn rule() -> String {
    "cases = an index with a vector field (dim 1-6, cosine or L2, optional hnsw params), 3-40 documents with present / null / missing vectors plus text, keyword and numeric fields, committed in segments of at most m=16 vectors (the exactness regime) with deletions; a vector-only request (k, boost, filter, vector_filter, limit) or a hybrid request (text query + vector_query object or legacy tuple, alpha 0 / 0.25 / 0.5 / 1); plus wrong-dimension probes for the query and for a document. Oracle (vector-only): every hit is a live document that has a vector and passes filter and vector_filter; vector_score == exact similarity (dot of normalised vectors, or minus the Euclidean distance) x boost and the hit score equals it; hits are ordered by score; the hit scores are exactly the best min(limit, eligible) similarities. Hybrid: hits carrying a vector_score have the exact similarity x boost and score == alpha*text score + (1-alpha)*vector score, hits are ordered by score, alpha 1 gives the order of the text-only request. Wrong-dimension query => error; wrong-dimension document => rejected at add or at commit. Non-trivial = >= 2 segments and a deletion or a filter removes a nearer neighbour; distinct = hash of the case".into()
  }
  fn assumptions() -> Vec<String> {
    vec![
      "f32 tolerance 1e-4 relative on similarities; ties at the cut-off are accepted either way".into(),
      "hybrid requests: whether a text match without a vector is returned is not judged (the README describes a blend, not a filter)".into(),
      "k is left at its default (limit) or set above it; with filters k covers every document so that the exactness regime applies".into(),
    ]
  }
  fn plan(tier: Tier) -> Plan {
    Plan { workers: 16, cases_per_worker: tier.pick(1000, 100000) }
  }
  fn shrink_iters() -> u32 {
    1000
  }
  fn strategy(_tier: Tier) -> BoxedStrategy<Case> {
    (1usize..7, any::<bool>(), proptest::option::weighted(0.3, (select(vec![4usize, 16, 32]), select(vec![8usize, 64]))))
      .prop_flat_map(|(dim, cosine, hnsw)| {
        let doc = (
          select(vec!["rust search", "rust", "quick fox", "search engine fox", "", "rust rust fox"]),
          proptest::option::weighted(0.8, select(vec!["red", "green", "blue"])),
          proptest::option::weighted(0.8, 0i64..5),
          prop_oneof![8 => vecf(dim).prop_map(|v| Some(Some(v))), 1 => Just(Some(None)), 1 => Just(None)],
        )
          .prop_map(|(body, tag, year, emb)| Doc { body: body.to_string(), tag: tag.map(|s| s.to_string()), year, emb });
        let filter = proptest::option::weighted(0.3, prop_oneof![
          select(vec!["red", "green", "blue"]).prop_map(|t| json!({"KeywordEq": {"field": "tag", "value": t}})),
          (0i64..3, 0i64..3).prop_map(|(a, b)| json!({"I64Range": {"field": "year", "min": a, "max": a + b}})),
        ]);
        ((
          Just(dim),
          Just(cosine),
          Just(hnsw),
          vec(doc, 3..40),
          vec(1usize..50, 1..4),
          vec(any::<u16>(), 0..3),
          vecf(dim),
        ), (
          1usize..8,
          proptest::option::weighted(0.3, 0usize..6),
          proptest::option::weighted(0.3, select(vec![0.5f32, 2.0, 1.0, 0.0])),
          filter.clone(),
          filter,
          proptest::option::weighted(0.3, (select(vec!["rust", "fox", "search engine", "nothing"]).prop_map(|s| s.to_string()), select(vec![0.0f32, 0.25, 0.5, 1.0]), any::<bool>())),
          prop_oneof![8 => Just(0u8), 1 => Just(1u8), 1 => Just(2u8)],
        ))
      })
      .prop_map(|((dim, cosine, hnsw, docs, commits, dels, query), (limit, k_extra, boost, filter, vector_filter, hybrid, wrong_dim))| {
        let n = docs.len();
        let mut deletes: Vec<usize> = dels.iter().map(|s| (*s as usize * n) >> 16).collect();
        deletes.sort_unstable();
        deletes.dedup();
        Case { dim, cosine, hnsw, docs, commits, deletes, query, limit, k_extra, boost, filter, vector_filter, hybrid, wrong_dim }
      })
      .boxed()
  }
  fn run(case: &Case, _ctx: &Ctx) -> Outcome {
    let mut out = Outcome::new();
    out.evals = 1;
    let scratch = Scratch::new("c29");
    let root = scratch.sub("idx");
    let storage = sut::make_storage(&root, StorageKind::Mem);
    let schema: searchlite_core::Schema = match serde_json::from_value(schema_json(case)) {
      Ok(s) => s,
      Err(e) => {
        out.fail("schema-rejected", format!("{e}"));
        return out;
      }
    };
    let idx = match searchlite_core::api::Index::create_with_storage(&root, schema, sut::default_options(&root, StorageKind::Mem), storage) {
      Ok(i) => i,
      Err(e) => {
        out.fail("create-failed", format!("{e:#}"));
        return out;
      }
    };
    let n = case.docs.len();
    let m = case.hnsw.map(|h| h.0).unwrap_or(16);
    let commits = normalise(&case.commits, n, m.min(16));
    let build = || -> anyhow::Result<()> {
      let mut w = idx.writer()?;
      let mut next = 0usize;
      for c in commits.iter() {
        for _ in 0..*c {
          w.add_document(&sut::document(&doc_json(next, &case.docs[next])))?;
          next += 1;
        }
        w.commit()?;
      }
      if !case.deletes.is_empty() {
        let ids: Vec<String> = case.deletes.iter().map(|i| format!("v{i:03}")).collect();
        w.delete_documents(&ids)?;
        w.commit()?;
      }
      Ok(())
    };
    if let Err(e) = build() {
      out.fail("corpus-build-failed", format!("{e:#}"));
      return out;
    }
    // wrong-dimension document: rejected at add or at commit, and later commits still work
    if case.wrong_dim == 2 {
      out.evals += 1;
      let bad = json!({"_id": "wrong", "body": "x", "emb": vec![0.5f32; case.dim + 1]});
      let res: Result<(), String> = (|| {
        let mut w = idx.writer().map_err(|e| format!("{e:#}"))?;
        match w.add_document(&sut::document(&bad)) {
          Err(_) => Ok(()),
          Ok(_) => match w.commit() {
            Err(_) => {
              let _ = w.rollback();
              Ok(())
            }
            Ok(()) => Err("a document whose vector has the wrong dimension was accepted and committed".to_string()),
          },
        }
      })();
      if let Err(e) = res {
        out.fail("wrong-dimension-document-accepted", e);
        return out;
      }
      out.class("wrong-dimension-document");
    }
    let reader = match idx.reader() {
      Ok(r) => r,
      Err(e) => {
        out.fail("reader-open-failed", format!("{e:#}"));
        return out;
      }
    };
    if case.wrong_dim == 1 {
      out.evals += 1;
      let q = json!({"query": {"type": "vector", "field": "emb", "vector": vec![1.0f32; case.dim + 1], "alpha": 0.0}, "limit": 3});
      if sut::search(&reader, q).is_ok() {
        out.fail("wrong-dimension-query-accepted", format!("a query vector of dimension {} was accepted for a field of dimension {}", case.dim + 1, case.dim));
        return out;
      }
      out.class("wrong-dimension-query");
    }
    let boost = case.boost.unwrap_or(1.0);
    let spec = schema_spec();
    let passes = |f: &Option<Value>, d: &Value| f.as_ref().map(|f| fmodel::passes(&spec, f, d)).unwrap_or(true);
    // eligible documents with their exact similarity
    let live: Vec<usize> = (0..n).filter(|i| !case.deletes.contains(i)).collect();
    let mut eligible: Vec<(String, f32)> = Vec::new();
    let mut nearer_removed = false;
    let mut best_removed = f32::NEG_INFINITY;
    for i in 0..n {
      let d = &case.docs[i];
      let Some(Some(e)) = &d.emb else { continue };
      let sim = similarity(case.cosine, &case.query, e) * boost;
      let dj = doc_json(i, d);
      if live.contains(&i) && passes(&case.filter, &dj) && passes(&case.vector_filter, &dj) {
        eligible.push((format!("v{i:03}"), sim));
      } else {
        best_removed = best_removed.max(sim);
      }
    }
    eligible.sort_by(|a, b| b.1.partial_cmp(&a.1).unwrap_or(std::cmp::Ordering::Equal));
    if eligible.iter().take(case.limit).any(|(_, s)| *s < best_removed) {
      nearer_removed = true;
    }
    let filtered = case.filter.is_some() || case.vector_filter.is_some();
    let k = if filtered { Some(n + 5) } else { case.k_extra.map(|x| case.limit + x) };
    let mut vq = json!({"field": "emb", "vector": case.query, "alpha": 0.0});
    if let Some(k) = k {
      vq["k"] = json!(k);
    }
    if let Some(b) = case.boost {
      vq["boost"] = json!(b);
    }
    let sim_of = |id: &str| eligible.iter().find(|(i, _)| i == id).map(|(_, s)| *s);
    let tol = |a: f32, b: f32| (a - b).abs() <= 1e-4 * 1.0f32.max(a.abs()).max(b.abs());
    match &case.hybrid {
      None => {
        let mut node = vq.clone();
        node["type"] = json!("vector");
        let mut req = json!({"query": node, "limit": case.limit, "return_stored": false});
        if filtered {
          req["candidate_size"] = json!(n + 20);
        }
        if let Some(f) = &case.filter {
          req["filter"] = f.clone();
        }
        if let Some(f) = &case.vector_filter {
          req["vector_filter"] = f.clone();
        }
        let res = match sut::search(&reader, req.clone()) {
          Ok(r) => r,
          Err(e) => {
            out.fail("vector-request-failed", format!("{e:#}; request {req}"));
            return out;
          }
        };
        let ctxt = || format!("request {req}; eligible (id, similarity x boost) {:?}; segments {:?}, deleted {:?}", eligible, commits, case.deletes);
        let mut prev = f32::INFINITY;
        for h in res.hits.iter() {
          let Some(want) = sim_of(&h.doc_id) else {
            out.fail("hit-is-not-an-eligible-document", format!("hit {} (score {}) is deleted, has no vector, or fails filter / vector_filter; {}", h.doc_id, h.score, ctxt()));
            return out;
          };
          match h.vector_score {
            Some(vs) if tol(vs, want) => {}
            other => {
              out.fail("vector-score-wrong", format!("hit {}: vector_score {:?}, exact similarity x boost {want}; {}", h.doc_id, other, ctxt()));
              return out;
            }
          }
          if !tol(h.score, want) {
            out.fail("score-is-not-the-vector-score", format!("hit {}: score {} with alpha 0, vector score {want}; {}", h.doc_id, h.score, ctxt()));
            return out;
          }
          if h.score > prev && !tol(h.score, prev) {
            out.fail("hits-not-ordered-by-score", format!("{} after a hit scoring {prev}; {}", h.score, ctxt()));
            return out;
          }
          prev = h.score;
        }
        // exact nearest neighbours (every segment holds <= m vectors)
        let want_n = case.limit.min(eligible.len());
        if res.hits.len() != want_n {
          out.fail("wrong-number-of-neighbours", format!("{} hits, expected {want_n}; {}", res.hits.len(), ctxt()));
          return out;
        }
        for (pos, h) in res.hits.iter().enumerate() {
          if !tol(h.score, eligible[pos].1) {
            out.fail("not-the-nearest-neighbours", format!("position {pos}: {} scores {}, the exact ranking has {} there; {}", h.doc_id, h.score, eligible[pos].1, ctxt()));
            return out;
          }
        }
        out.class("vector-only");
      }
      Some((text, alpha, legacy)) => {
        let tq = json!({"type": "query_string", "query": text, "fields": ["body"]});
        let mut req = json!({"query": tq, "limit": case.limit, "return_stored": false, "execution": "bm25"});
        req["vector_query"] = if *legacy { json!(["emb", case.query, alpha]) } else {
          let mut v = vq.clone();
          v["alpha"] = json!(alpha);
          v
        };
        let (res, text_only) = match (sut::search(&reader, req.clone()), sut::search(&reader, json!({"query": tq, "limit": n + 5, "return_stored": false, "execution": "bm25"}))) {
          (Ok(a), Ok(b)) => (a, b),
          (a, b) => {
            out.fail("hybrid-request-failed", format!("{:?} / {:?}; request {req}", a.err().map(|e| format!("{e:#}")), b.err().map(|e| format!("{e:#}"))));
            return out;
          }
        };
        let b = if *legacy { 1.0 } else { boost };
        let ctxt = || format!("request {req}");
        let mut prev = f32::INFINITY;
        for h in res.hits.iter() {
          if let Some(vs) = h.vector_score {
            let i: usize = h.doc_id[1..].parse().unwrap_or(0);
            let Some(Some(e)) = case.docs.get(i).map(|d| d.emb.clone()).unwrap_or(None) else {
              out.fail("vector-score-for-a-document-without-vector", format!("hit {} carries vector_score {vs}; {}", h.doc_id, ctxt()));
              return out;
            };
            let want = similarity(case.cosine, &case.query, &e) * b;
            if !tol(vs, want) {
              out.fail("vector-score-wrong", format!("hit {}: vector_score {vs}, exact similarity x boost {want}; {}", h.doc_id, ctxt()));
              return out;
            }
            let ts = text_only.hits.iter().find(|t| t.doc_id == h.doc_id).map(|t| t.score).unwrap_or(0.0);
            let blend = alpha * ts + (1.0 - alpha) * vs;
            if !tol(h.score, blend) && !(*alpha >= 1.0 && close(h.score, ts)) {
              out.fail("hybrid-score-is-not-the-documented-blend", format!("hit {}: score {}, alpha {alpha} x text {ts} + (1-alpha) x vector {vs} = {blend}; {}", h.doc_id, h.score, ctxt()));
              return out;
            }
          }
          if h.score > prev && !tol(h.score, prev) {
            out.fail("hits-not-ordered-by-score", format!("{} after a hit scoring {prev}; {}", h.score, ctxt()));
            return out;
          }
          prev = h.score;
        }
        out.class(format!("hybrid-alpha-{alpha}"));
        // multi-clause hybrid: the text query plus two vector clauses in a bool, one of them with alpha exactly 1
        // ("BM25 only" for that clause). How several clauses blend is not documented, so only this is judged:
        // vector search runs for the clause with alpha < 1, hence ("responses include vector_score when vector
        // search runs") the hits that have a vector and were reachable (k covers every document) carry a
        // vector_score, and every vector_score is given to a document that has a vector.
        if *alpha < 1.0 && !*legacy {
          out.evals += 1;
          let clause = |a: f32| json!({"type": "vector", "field": "emb", "vector": case.query, "alpha": a, "k": n + 5});
          let (first, second) = if case.limit % 2 == 0 { (clause(*alpha), clause(1.0)) } else { (clause(1.0), clause(*alpha)) };
          let mreq = json!({"query": {"type": "bool", "must": [tq], "should": [first, second], "must_not": [], "filter": []}, "limit": n + 5, "return_stored": false, "execution": "bm25"});
          match sut::search(&reader, mreq.clone()) {
            Err(_) => out.class("multi-clause-rejected"),
            Ok(m) => {
              out.class("multi-clause-hybrid");
              for h in m.hits.iter() {
                let i: usize = h.doc_id[1..].parse().unwrap_or(0);
                let has_vec = matches!(case.docs.get(i).map(|d| d.emb.clone()), Some(Some(Some(_))));
                if h.vector_score.is_some() && !has_vec {
                  out.fail("vector-score-for-a-document-without-vector", format!("hit {} carries vector_score {:?}; request {mreq}", h.doc_id, h.vector_score));
                  return out;
                }
                if h.vector_score.is_none() && has_vec {
                  out.fail("multi-clause-hybrid-without-vector-score", format!("hit {} has a vector and k covers every document, but the hit carries no vector_score although a clause with alpha {alpha} asks for vector search; request {mreq}; hits {:?}", h.doc_id, m.hits.iter().map(|h| (h.doc_id.clone(), h.score, h.vector_score)).collect::<Vec<_>>()));
                  return out;
                }
              }
            }
          }
        }
      }
    }
    if commits.len() >= 2 && (nearer_removed || !case.deletes.is_empty()) {
      out.nontrivial(fingerprint_json(case));
    }
    out
  }
}
