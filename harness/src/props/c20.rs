//! C20 — explain and profile do not change results (metamorphic: flags on vs off).
use proptest::prelude::*;
use proptest::sample::select;
use serde::{Deserialize, Serialize};
use serde_json::{json, Value};

use crate::engine::{fingerprint_json, Ctx, Outcome, Plan, Property, Tier};
use crate::props::c08;
use crate::props::c13::agg_tree;
use crate::qgen::QGen;
use crate::rank::{self, hits};
use crate::scoreworld::{self, World, WorldOpts};
use crate::sut;

#[derive(Clone, Debug, Serialize, Deserialize)]
pub struct Case {
  pub world: World,
  pub query: Value,
  pub filter: Option<Value>,
  pub sort: Vec<Value>,
  pub limit: usize,
  pub execution: String,
  pub aggs: Option<Value>,
  pub rescore: Option<Value>,
  /// take the second page (through the first page's cursor) instead of the first
  pub second_page: bool,
}

pub struct C20;

pub const SIG_EXPLAIN_SCORING: &str = "explain-forces-scoring";
pub const SIG_EXPLAIN_PRUNING: &str = "explain-disables-pruning";
pub const SIG_EXPLAIN_POOL: &str = "explain-enlarges-rescore-pool";

impl Property for C20 {
  type Case = Case;
  const ID: &'static str = "C20";
  fn rule() -> String {
    "cases = tie-heavy corpus in 1-4 segments, a query (match_all or scored tree incl. function/script scores), optional filter, sort plan of 0-3 keys, limit 1..12, execution strategy, optional aggregation tree, optional rescore, first or second page of a cursor walk; the response is computed with (explain, profile) = (off,off) and compared with (on,off), (off,on), (on,on): ids, order, scores (tolerance), total_hits_estimate, next_cursor presence (and equality), aggregations; with explain every hit carries an explanation whose final_score equals the hit score. Non-trivial = non-score sort or >=2 segments or a cursor; distinct = hash of the request".into()
  }
  fn plan(tier: Tier) -> Plan {
    Plan { workers: 16, cases_per_worker: tier.pick(1500, 100000) }
  }
  fn shrink_iters() -> u32 {
    800
  }
  fn strategy(_tier: Tier) -> BoxedStrategy<Case> {
    let schema = scoreworld::schema();
    let g = QGen::new(&schema, 6, false);
    let w = scoreworld::world(WorldOpts { min_docs: 5, max_docs: 50, max_commits: 4, deletes: true, ties: true, vocab: 6 });
    let query = prop_oneof![1 => Just(json!({"type": "match_all"})), 5 => g.tree(2)];
    let rescore = (g.tree(1), 0usize..12, select(vec!["total", "multiply", "max", "min", "sum"])).prop_map(|(q, w, m)| json!({"window_size": w, "query": q, "score_mode": m}));
    (w, query, proptest::option::weighted(0.2, c08::root_filter(&schema, 1)), scoreworld::sort_plan(3), 1usize..12, select(vec!["bm25", "wand", "bmw"]), proptest::option::weighted(0.3, agg_tree(2)), proptest::option::weighted(0.2, rescore), any::<bool>())
      .prop_map(|(world, query, filter, sort, limit, execution, aggs, rescore, second_page)| Case { world, query, filter, sort, limit, execution: execution.to_string(), aggs, rescore, second_page })
      .boxed()
  }
  fn run(case: &Case, ctx: &Ctx) -> Outcome {
    let mut out = Outcome::new();
    let built = match case.world.build("c20") {
      Ok(b) => b,
      Err(e) => {
        out.fail("corpus-build-failed", format!("{e:#}"));
        return out;
      }
    };
    let reader = match built.idx.reader() {
      Ok(r) => r,
      Err(e) => {
        out.fail("reader-open-failed", format!("{e:#}"));
        return out;
      }
    };
    let mut base = json!({"query": case.query, "limit": case.limit, "execution": case.execution, "sort": case.sort});
    if let Some(f) = &case.filter {
      base["filter"] = f.clone();
    }
    if let Some(a) = &case.aggs {
      base["aggs"] = json!({"a": a});
    }
    if let Some(r) = &case.rescore {
      base["rescore"] = r.clone();
    }
    let mut cursor_used = false;
    if case.second_page {
      match sut::search(&reader, base.clone()) {
        Ok(r) => {
          if let Some(c) = r.next_cursor {
            base["cursor"] = json!(c);
            cursor_used = true;
          }
        }
        Err(_) => {
          out.class("request-rejected");
          out.evals = 1;
          return out;
        }
      }
    }
    let plain = match sut::search(&reader, base.clone()) {
      Ok(r) => r,
      Err(_) => {
        out.class("request-rejected");
        out.evals = 1;
        return out;
      }
    };
    let plain_hits = hits(&plain);
    let score_sort = case.sort.is_empty() || case.sort.iter().all(|k| k["field"] == "_score");
    // "unscored" = without rescore the flag-less request reports only the default scores 0.0 / 1.0
    // (asked with the default score sort and without aggregations, rescore and cursor, so that the answer says
    // something about the query - whether it has any scored term - and not about the mode the request ran in)
    let mut unscored_req = base.clone();
    for k in ["rescore", "aggs", "cursor", "sort"] {
      unscored_req.as_object_mut().unwrap().remove(k);
    }
    let plain_const = match sut::search(&reader, unscored_req) {
      Ok(u) => u.hits.iter().all(|h| h.score == 0.0) || u.hits.iter().all(|h| h.score == 1.0),
      Err(_) => false,
    };
    for (explain, profile) in [(true, false), (false, true), (true, true)] {
      out.evals += 1;
      let mut req = base.clone();
      req["explain"] = json!(explain);
      req["profile"] = json!(profile);
      let r = match sut::search(&reader, req.clone()) {
        Ok(r) => r,
        Err(e) => {
          let msg = format!("{e:#}");
          if explain && cursor_used && msg.contains("stale or invalid cursor") {
            // the cursor encodes the score of the last hit; explain computes different scores (listed finding)
            out.fail(SIG_EXPLAIN_SCORING, format!("cursor of the flag-less walk rejected with explain on: {msg}; request {req}"));
            if ctx.is_known(Self::ID, SIG_EXPLAIN_SCORING) {
              out.excluded_known += 1;
              continue;
            }
            return out;
          }
          out.fail("flag-makes-request-fail", format!("request succeeds without flags but fails with explain={explain} profile={profile}: {msg}; request {req}"));
          return out;
        }
      };
      let hs = hits(&r);
      let ids_a: Vec<&String> = hs.iter().map(|h| &h.id).collect();
      let ids_b: Vec<&String> = plain_hits.iter().map(|h| &h.id).collect();
      let what = format!("explain={explain} profile={profile}");
      let uses_score = case.sort.is_empty() || case.sort.iter().any(|k| k["field"] == "_score");
      if ids_a != ids_b {
        // order may differ only inside score ties when sorting by score
        if !(score_sort && rank::same_top_k(&hs, &plain_hits).is_ok()) {
          let big_window = case.rescore.as_ref().and_then(|r| r["window_size"].as_u64()).map(|w| w as usize > case.limit).unwrap_or(false);
          if explain && big_window {
            out.fail(SIG_EXPLAIN_POOL, format!("{what}: hits {:?} vs {:?} without flags; request {req}", hs, plain_hits));
            if ctx.is_known(Self::ID, SIG_EXPLAIN_POOL) {
              out.excluded_known += 1;
              continue;
            }
            return out;
          }
          if explain && uses_score && (plain_const || !score_sort) {
            // order by a score that explain computes differently (listed finding explain-forces-scoring)
            out.fail(SIG_EXPLAIN_SCORING, format!("{what}: hits {:?} vs {:?} without flags; request {req}", hs, plain_hits));
            if ctx.is_known(Self::ID, SIG_EXPLAIN_SCORING) {
              out.excluded_known += 1;
              continue;
            }
            return out;
          }
          out.fail("hits-changed", format!("{what}: hits {:?} vs {:?} without flags; request {req}", hs, plain_hits));
          return out;
        }
      } else if let Err(e) = rank::same_full_ranking(&hs, &plain_hits) {
        // listed finding: explain switches the engine into scoring mode, so scores that are not
        // needed for ranking (sort without _score, or a query without any scored term) differ

        // (with aggregations in the request scoring is on in both modes, whatever the sort: no excuse then)
        if explain && ((!uses_score && case.aggs.is_none()) || plain_const) {
          out.fail(SIG_EXPLAIN_SCORING, format!("{what}: {e}; request {req}"));
          if ctx.is_known(Self::ID, SIG_EXPLAIN_SCORING) {
            out.excluded_known += 1;
            continue;
          }
          return out;
        }
        out.fail("scores-changed", format!("{what}: {e}; request {req}"));
        return out;
      }
      if explain && case.execution != "bm25" && score_sort && r.total_hits_estimate > plain.total_hits_estimate {
        out.fail(SIG_EXPLAIN_PRUNING, format!("{what}: total_hits_estimate {} vs {} without flags (execution {}); request {req}", r.total_hits_estimate, plain.total_hits_estimate, case.execution));
        if ctx.is_known(Self::ID, SIG_EXPLAIN_PRUNING) {
          out.excluded_known += 1;
          continue;
        }
        return out;
      }
      if r.total_hits_estimate != plain.total_hits_estimate {
        out.fail("total-changed", format!("{what}: total_hits_estimate {} vs {}; request {req}", r.total_hits_estimate, plain.total_hits_estimate));
        return out;
      }
      if r.next_cursor.is_some() != plain.next_cursor.is_some() {
        out.fail("cursor-changed", format!("{what}: next_cursor {:?} vs {:?}; request {req}", r.next_cursor, plain.next_cursor));
        return out;
      }
      if ids_a == ids_b && r.next_cursor != plain.next_cursor && !score_sort {
        out.fail("cursor-changed", format!("{what}: next_cursor differs although hits are identical: {:?} vs {:?}; request {req}", r.next_cursor, plain.next_cursor));
        return out;
      }
      let aa = serde_json::to_value(&r.aggregations).unwrap_or(Value::Null);
      let ab = serde_json::to_value(&plain.aggregations).unwrap_or(Value::Null);
      // f32 hit scores inside top_hits follow the score tolerance / tie rule of DESIGN §8
      let score_ties = case.aggs.as_ref().map(crate::props::c13::top_hits_orders_by_score).unwrap_or(false);
      let cmp = crate::props::c13::agg_cmp(&aa, &ab, score_ties);
      if cmp == crate::props::c13::AggEq::NearTie {
        out.class("top_hits-near-tie-not-judged");
      }
      if cmp == crate::props::c13::AggEq::Different {
        // the listed finding explain-forces-scoring seen through top_hits: under exactly the condition under which
        // the hits' own scores differ for a query without any scored term (default 1.0 vs the computed 0.0) the
        // first-pass scores reported inside top_hits differ the same way;
        // every count, key and metric - everything but the hit lists of top_hits - must still be equal
        // (only for queries without any scored term: with scored terms the aggregations force scoring in both modes,
        // also under a sort without _score, and top_hits must agree)
        if explain && plain_const && crate::props::c13::agg_cmp(&crate::props::c13::without_top_hits_lists(&aa), &crate::props::c13::without_top_hits_lists(&ab), false) == crate::props::c13::AggEq::Same {
          out.fail(SIG_EXPLAIN_SCORING, format!("{what}: top_hits scores {aa} vs {ab}; request {req}"));
          if ctx.is_known(Self::ID, SIG_EXPLAIN_SCORING) {
            out.excluded_known += 1;
            continue;
          }
          return out;
        }
        out.fail("aggregations-changed", format!("{what}: aggregations {aa} vs {ab}; request {req}"));
        return out;
      }
      if explain {
        for h in r.hits.iter() {
          match &h.explanation {
            None => {
              out.fail("missing-explanation", format!("hit {} has no explanation; request {req}", h.doc_id));
              return out;
            }
            Some(e) => {
              if !rank::close(e.final_score, h.score) {
                out.fail("explanation-final-score", format!("hit {}: explanation.final_score {} != score {}; request {req}", h.doc_id, e.final_score, h.score));
                return out;
              }
            }
          }
        }
      }
      if profile && r.profile.is_none() {
        out.fail("missing-profile", format!("profile requested but absent; request {req}"));
        return out;
      }
    }
    if !score_sort {
      out.class("non-score-sort");
    }
    if cursor_used {
      out.class("cursor");
    }
    if case.aggs.is_some() {
      out.class("aggs");
    }
    if case.rescore.is_some() {
      out.class("rescore");
    }
    if !score_sort || built.segments >= 2 || cursor_used {
      out.nontrivial(fingerprint_json(&base));
    }
    out
  }
}
