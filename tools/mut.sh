#!/bin/bash
# tools/mut.sh <patch.diff> <ID> [extra check args]  — apply a patch to /repo, run a check, always undo.
set -u
PATCH="$(realpath "$1")"; ID="$2"; shift 2
cd /repo
if ! git diff --quiet; then echo "/repo has uncommitted changes; refusing" >&2; exit 3; fi
git apply "$PATCH" || { echo "patch does not apply" >&2; exit 3; }
trap 'git -C /repo checkout -- . ; git -C /repo clean -fdq -- searchlite-core searchlite-http searchlite-ffi searchlite-cli 2>/dev/null' EXIT
cd /verif && ./check "$ID" "$@"
echo "exit=$?"
