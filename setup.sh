#!/bin/bash
# Builds the harness offline from files on disk (cargo registry cache + /repo by path).
set -e
cd "$(dirname "$0")"
export CARGO_NET_OFFLINE=true
mkdir -p target evidence replays
# the vectors variant first (C29), then the default build the other checks use
( cd harness && cargo build --release --bin check --features vectors )
( cd harness && cargo build --release --bin check )
# the CLI binary C25 runs as a subprocess
cargo build --release --offline --manifest-path /repo/Cargo.toml -p searchlite-cli --target-dir "$(pwd)/target/repo-bins"
echo "setup ok"
