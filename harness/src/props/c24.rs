//! C24 — every HTTP request gets a well-formed response with the documented status / error shape,
//! and no request takes the server down.
use std::time::Duration;

use proptest::collection::vec;
use proptest::prelude::*;
use proptest::sample::select;
use serde::{Deserialize, Serialize};
use serde_json::{json, Value};

use crate::engine::{fingerprint_json, Ctx, Outcome, Plan, Property, Tier};
use crate::httpc::{self, Resp, Server};
use crate::props::c16;
use crate::scoreworld;
use crate::sut::Scratch;

const MAX_BODY: usize = 16 * 1024;

#[derive(Clone, Debug, Serialize, Deserialize)]
pub enum Body {
  /// a body the route documents as valid (variant selector)
  Valid(u8),
  /// a body the route must reject as invalid input (variant selector)
  Invalid(u8),
  /// /search only: a structurally valid request after hostile mutations (valid or not: 2xx or 4xx)
  Hostile(Value, Vec<c16::Mutation>),
  /// a valid body with byte-level damage: (position selector, what)
  Damaged(u8, u16, u8),
  Oversized(bool),
  WrongContentType,
  Empty,
}

#[derive(Clone, Debug, Serialize, Deserialize)]
pub enum Step {
  /// a documented route with its documented method
  Call(String, Body),
  /// a documented route with another method
  WrongMethod(String, String),
  UnknownPath(String),
  /// bytes that are not a well-formed HTTP request
  Raw(u8),
  /// the index appears on disk while the service runs without one (created by another process, e.g. the CLI)
  ExternalInit,
}

#[derive(Clone, Debug, Serialize, Deserialize)]
pub struct Case {
  pub before_init: Vec<Step>,
  pub after_init: Vec<Step>,
}

pub struct C24;

const POST_ROUTES: &[&str] = &["/init", "/add", "/bulk", "/delete", "/commit", "/refresh", "/compact", "/search"];
const GET_ROUTES: &[&str] = &["/healthz", "/inspect", "/stats"];

fn method_of(route: &str) -> &'static str {
  if GET_ROUTES.contains(&route) {
    "GET"
  } else {
    "POST"
  }
}

fn needs_index(route: &str) -> bool {
  route != "/healthz" && route != "/init"
}

fn schema_json() -> Value {
  scoreworld::schema().to_json()
}

/// (content type, bytes)
fn valid_body(route: &str, sel: u8) -> (&'static str, Vec<u8>) {
  let j = "application/json";
  match route {
    "/init" => (j, schema_json().to_string().into_bytes()),
    "/add" => {
      let docs = [
        "{\"_id\":\"a1\",\"body\":\"rust search engine\",\"tag\":\"red\",\"year\":3}\n{\"_id\":\"a2\",\"body\":\"quick brown fox\",\"price\":1.5}\n",
        "{\"_id\":\"a3\",\"body\":\"caf\u{e9} \u{6771}\u{4eac}\"}\n\n{\"_id\":\"a1\",\"title\":\"again\"}",
        "",
        "\n\n",
      ];
      ("application/x-ndjson", docs[sel as usize % docs.len()].as_bytes().to_vec())
    }
    "/bulk" => (j, json!({"docs": [{"_id": "b1", "body": "the fox", "cat": "blue", "rank": 4}, {"_id": "b2", "tag": ["x", "y"]}]}).to_string().into_bytes()),
    "/delete" => (j, json!({"ids": ["a1", "nope"]}).to_string().into_bytes()),
    "/search" => {
      let reqs = [
        json!({"query": {"type": "match_all"}, "limit": 5, "return_stored": true}),
        json!({"query": "rust fox", "limit": 3, "return_stored": false, "aggs": {"t": {"type": "terms", "field": "tag"}}}),
        json!({"query": {"type": "term", "field": "body", "value": "rust"}, "limit": 2, "return_stored": false, "sort": [{"field": "year", "order": "desc"}], "explain": true}),
        json!({"query": {"type": "prefix", "field": "title", "value": "a"}, "limit": 1, "return_stored": true, "highlight": {"fields": {"body": {}}}, "suggest": {"s": {"type": "completion", "field": "body", "prefix": "ru"}}}),
      ];
      (j, reqs[sel as usize % reqs.len()].to_string().into_bytes())
    }
    _ => (j, Vec::new()),
  }
}

fn invalid_body(route: &str, sel: u8) -> (&'static str, Vec<u8>) {
  let j = "application/json";
  // error reasons quote request input: a third of the invalid bodies carry a long non-ASCII name
  // (two- to four-byte characters, every alignment) so that whatever the service does with long
  // reasons meets multi-byte text
  if sel % 3 == 0 && matches!(route, "/add" | "/bulk" | "/search") {
    let pad = "x".repeat((sel as usize / 3) % 4);
    let ch = ["é", "東", "🚀", "ß"][(sel as usize / 12) % 4];
    let name = format!("{pad}{}", ch.repeat(700));
    return match route {
      "/add" => ("application/x-ndjson", format!("{{\"_id\":\"x\",\"{name}\":1}}\n").into_bytes()),
      "/bulk" => (j, json!({"docs": [{"_id": "x", name: 1}]}).to_string().into_bytes()),
      _ => (j, json!({"query": {"type": name}, "limit": 1, "return_stored": false}).to_string().into_bytes()),
    };
  }
  let pick = |v: Vec<Vec<u8>>| v[sel as usize % v.len()].clone();
  match route {
    "/init" => (j, pick(vec![b"{".to_vec(), b"[]".to_vec(), b"{\"text_fields\": 5}".to_vec(), b"{\"doc_id_field\": \"\", \"text_fields\": []}".to_vec(), b"null".to_vec(), json!({"text_fields": [{"name": "body", "analyzer": "no-such-analyzer", "stored": true, "indexed": true}]}).to_string().into_bytes()])),
    "/add" => ("application/x-ndjson", pick(vec![b"{\"_id\": \"x\", ".to_vec(), b"42\n".to_vec(), b"{\"_id\":\"x\",\"bogus\":1}\n".to_vec(), b"{\"body\":\"no id\"}\n".to_vec(), b"{\"_id\":\"ok\",\"body\":\"fine\"}\n{\"_id\":\"x\",\"year\":\"NaN\"}\n".to_vec(), vec![b'{', 0xff, 0xfe, b'}', b'\n'], b"[1,2]\n".to_vec()])),
    "/bulk" => (j, pick(vec![b"{".to_vec(), b"{}".to_vec(), b"{\"docs\": []}".to_vec(), b"{\"docs\": 7}".to_vec(), b"{\"docs\": [3]}".to_vec(), b"{\"docs\": [{\"_id\": \"x\", \"bogus\": true}]}".to_vec(), b"{\"docs\": [{\"body\": \"no id\"}]}".to_vec()])),
    "/delete" => (j, pick(vec![b"{".to_vec(), b"{}".to_vec(), b"{\"ids\": []}".to_vec(), b"{\"ids\": [\"  \"]}".to_vec(), b"{\"ids\": [\"a\\nb\"]}".to_vec(), b"{\"ids\": [1]}".to_vec(), b"{\"ids\": \"a1\"}".to_vec()])),
    "/search" => (j, pick(vec![
      b"{".to_vec(),
      b"{}".to_vec(),
      json!({"query": {"type": "match_all"}, "limit": 0, "return_stored": false}).to_string().into_bytes(),
      json!({"query": {"type": "nope"}, "limit": 1, "return_stored": false}).to_string().into_bytes(),
      json!({"query": {"type": "match_all"}, "limit": 1, "return_stored": false, "cursor": "zz"}).to_string().into_bytes(),
      json!({"query": {"type": "match_all"}, "limit": 1, "return_stored": false, "aggs": {"t": {"type": "terms", "field": "body"}}}).to_string().into_bytes(),
      json!({"query": {"type": "match_all"}, "limit": 1, "return_stored": false, "sort": [{"field": "no_such_field"}]}).to_string().into_bytes(),
      json!({"query": {"type": "match_all"}, "limit": "many", "return_stored": false}).to_string().into_bytes(),
      json!({"query": {"type": "match_all"}, "limit": 1, "return_stored": false, "aggs": {"h": {"type": "histogram", "field": "price", "interval": 0}}}).to_string().into_bytes(),
    ])),
    _ => (j, b"{".to_vec()),
  }
}

#[derive(Clone, Copy, Debug, PartialEq)]
enum Expect {
  Ok,
  Exactly(u16),
  ClientError,
  OkOrClientError,
  /// any well-formed non-2xx answer
  Refusal,
}

fn error_shape(r: &Resp) -> Result<(), String> {
  let v = r.json().ok_or_else(|| format!("body is not JSON: {:?}", String::from_utf8_lossy(&r.body[..r.body.len().min(200)])))?;
  let e = v.get("error").and_then(|e| e.as_object()).ok_or_else(|| format!("no \"error\" object in {v}"))?;
  if !e.get("type").map(|t| t.is_string()).unwrap_or(false) || !e.get("reason").map(|t| t.is_string()).unwrap_or(false) {
    return Err(format!("error object lacks string members type/reason: {v}"));
  }
  Ok(())
}

fn success_shape(route: &str, r: &Resp) -> Result<(), String> {
  let v = r.json().ok_or_else(|| format!("2xx body is not JSON: {:?}", String::from_utf8_lossy(&r.body[..r.body.len().min(200)])))?;
  let has = |k: &str| v.get(k).is_some();
  let ok = match route {
    "/healthz" => v["status"] == "ok",
    "/init" => v["created"].is_boolean(),
    "/add" | "/bulk" | "/delete" => v["queued"].is_u64(),
    "/commit" => v["committed"] == true,
    "/refresh" => v["refreshed"] == true,
    "/compact" => v["compacted"] == true,
    "/search" => v["hits"].is_array() && v["total_hits_estimate"].is_u64(),
    "/inspect" => has("manifest"),
    "/stats" => v["documents"].is_u64() && v["segments"].is_u64(),
    _ => true,
  };
  if ok {
    Ok(())
  } else {
    Err(format!("2xx body of {route} lacks its documented members: {v}"))
  }
}

fn step_strategy() -> BoxedStrategy<Step> {
  let mut all: Vec<&'static str> = POST_ROUTES.to_vec();
  all.extend(GET_ROUTES);
  let route = select(all.clone()).prop_map(|s| s.to_string());
  let body = prop_oneof![
    5 => any::<u8>().prop_map(Body::Valid),
    5 => any::<u8>().prop_map(Body::Invalid),
    3 => (any::<u8>(), any::<u16>(), any::<u8>()).prop_map(|(a, b, c)| Body::Damaged(a, b, c)),
    1 => any::<bool>().prop_map(Body::Oversized),
    1 => Just(Body::WrongContentType),
    1 => Just(Body::Empty),
  ];
  let hostile = (c16::request_strategy(0), vec((any::<u16>(), any::<u8>(), any::<u16>()), 0..4)).prop_map(|(r, m)| Step::Call("/search".to_string(), Body::Hostile(r, m)));
  prop_oneof![
    10 => (route.clone(), body).prop_map(|(r, b)| Step::Call(r, b)),
    3 => hostile,
    2 => (route, select(vec!["GET", "POST", "PUT", "DELETE", "PATCH", "HEAD", "OPTIONS"])).prop_map(|(r, m)| Step::WrongMethod(r, m.to_string())),
    1 => select(vec!["/", "/nope", "/search/", "/init/x", "/add?x=1", "/%00", "/healthz2", "//search"]).prop_map(|s| Step::UnknownPath(s.to_string())),
    1 => any::<u8>().prop_map(Step::Raw),
    1 => Just(Step::ExternalInit),
  ]
  .boxed()
}

fn damage(mut b: Vec<u8>, pos: u16, what: u8) -> Vec<u8> {
  if b.is_empty() {
    return vec![what];
  }
  let i = (pos as usize * b.len()) >> 16;
  match what % 5 {
    0 => b.truncate(i),
    1 => b[i] ^= 0x20,
    2 => b[i] = 0xff,
    3 => {
      b.insert(i, b'"');
    }
    _ => {
      let tail = b[i..].to_vec();
      b.extend(tail);
    }
  }
  b
}

impl Property for C24 {
  type Case = Case;
  const ID: &'static str = "C24";
  fn rule() -> String {
    "cases = 2-10 requests before /init and 4-25 after it against the real searchlite-http service (in-process, loopback TCP, --max-body-bytes 16384): each of the 11 routes with a documented-valid body, a body it must reject (bad JSON, wrong types, schema violations, invalid search requests), a valid body with byte damage, an oversized body (Content-Length or chunked), a wrong content type, no body; /search with hostile mutated requests; wrong methods, unknown paths, bytes that are not HTTP. Oracle per request: a syntactically valid HTTP response arrives; on documented routes 2xx bodies carry the documented JSON members and every non-2xx body is {\"error\":{\"type\":string,\"reason\":string}}; 404 for index routes before /init, 409 for a second /init, 413 for oversized bodies, 4xx (never 5xx) for invalid input, 2xx for valid input; undefined methods / paths and non-HTTP bytes get a well-formed non-2xx answer; /healthz answers 200 after every request. Non-trivial = the request reached a handler with a body that had to be rejected (4xx other than a bare 404/405 from the router); distinct = hash of (route, body)".into()
  }
  fn assumptions() -> Vec<String> {
    vec![
      "for methods / paths the API does not define and for bytes that are not HTTP only 'a well-formed non-2xx response and a live server' is required (the documented error body is the API's own)".into(),
      "a damaged body may happen to stay valid: then 2xx or 4xx are both accepted".into(),
    ]
  }
  fn plan(tier: Tier) -> Plan {
    Plan { workers: 8, cases_per_worker: tier.pick(120, 3000) }
  }
  fn shrink_iters() -> u32 {
    // a hanging handler costs the request timeout per probe: keep the shrink budget small
    60
  }
  fn isolate() -> bool {
    true
  }
  fn strategy(_tier: Tier) -> BoxedStrategy<Case> {
    (vec(step_strategy(), 2..10), vec(step_strategy(), 4..25)).prop_map(|(before_init, after_init)| Case { before_init, after_init }).boxed()
  }
  fn run(case: &Case, _ctx: &Ctx) -> Outcome {
    let mut out = Outcome::new();
    let scratch = Scratch::new("c24");
    let root = scratch.sub("idx");
    // a short request timeout: a handler that hangs shows up as a 504 within seconds
    let srv = match Server::start(&root, &["--max-body-bytes", &MAX_BODY.to_string(), "--request-timeout-secs", "5"]) {
      Ok(s) => s,
      Err(e) => {
        out.inconclusive = Some(format!("cannot start the HTTP service: {e:#}"));
        return out;
      }
    };
    let port = srv.port;
    let mut has_index = false;
    // false once an /init with a damaged (but still accepted) schema created the index: what is a
    // valid document or request then depends on a schema the check does not know
    let mut schema_known = true;
    let steps: Vec<(bool, &Step)> = case.before_init.iter().map(|s| (false, s)).chain(case.after_init.iter().map(|s| (true, s))).collect();
    let mut phase_after = false;
    for (after, step) in steps {
      if after && !phase_after {
        phase_after = true;
        if !has_index {
          match httpc::post_json(port, "/init", &schema_json()) {
            Ok(r) if r.status == 200 => has_index = true,
            Ok(r) => {
              out.fail("init-failed", format!("/init answered {} {}", r.status, String::from_utf8_lossy(&r.body)));
              return out;
            }
            Err(e) => {
              out.fail("no-response", format!("/init: {e:#}"));
              return out;
            }
          }
        }
      }
      out.evals += 1;
      let (label, result, expect, route): (String, anyhow::Result<Resp>, Expect, Option<String>) = match step {
        Step::Call(route, body) => {
          let m = method_of(route);
          let (ct, bytes, mut expect): (&str, Vec<u8>, Expect) = match body {
            Body::Valid(s) => {
              let (ct, b) = valid_body(route, *s);
              (ct, b, Expect::Ok)
            }
            Body::Invalid(s) => {
              let (ct, b) = invalid_body(route, *s);
              (ct, b, if m == "GET" || matches!(route.as_str(), "/commit" | "/refresh" | "/compact") { Expect::Ok } else { Expect::ClientError })
            }
            Body::Hostile(req, muts) => {
              let mut r = req.clone();
              for mu in muts {
                c16::mutate(&mut r, *mu);
              }
              ("application/json", r.to_string().into_bytes(), Expect::OkOrClientError)
            }
            Body::Damaged(s, pos, what) => {
              let (ct, b) = valid_body(route, *s);
              (ct, damage(b, *pos, *what), if m == "GET" || matches!(route.as_str(), "/commit" | "/refresh" | "/compact") { Expect::Ok } else { Expect::OkOrClientError })
            }
            // a route that never reads its body cannot notice a chunked body growing past the limit
            Body::Oversized(chunked) => ("application/json", vec![b' '; MAX_BODY + 1024], if m == "GET" || (*chunked && matches!(route.as_str(), "/commit" | "/refresh" | "/compact")) { Expect::OkOrClientError } else { Expect::Exactly(413) }),
            Body::WrongContentType => {
              let (_, b) = valid_body(route, 0);
              let json_route = matches!(route.as_str(), "/init" | "/bulk" | "/delete" | "/search");
              ("text/plain", b, if json_route { Expect::ClientError } else { Expect::Ok })
            }
            Body::Empty => ("application/json", Vec::new(), if matches!(route.as_str(), "/init" | "/bulk" | "/delete" | "/search") { Expect::ClientError } else { Expect::Ok }),
          };
          // state-dependent expectations
          if !schema_known && expect == Expect::Ok && matches!(route.as_str(), "/add" | "/bulk" | "/search") {
            expect = Expect::OkOrClientError;
          }
          if route == "/init" {
            if has_index && expect == Expect::Ok {
              expect = Expect::Exactly(409);
            } else if has_index && !matches!(expect, Expect::Exactly(413)) {
              expect = Expect::ClientError; // 409 or 400, whichever check comes first
            }
          } else if needs_index(route) && !has_index {
            expect = match expect {
              Expect::Ok => Expect::Exactly(404),
              Expect::Exactly(413) => Expect::ClientError, // 404 or 413
              _ => Expect::ClientError,
            };
          }
          let chunked = matches!(body, Body::Oversized(true));
          let res = if chunked {
            let mut raw = format!("{m} {route} HTTP/1.1\r\nHost: x\r\nConnection: close\r\nContent-Type: {ct}\r\nTransfer-Encoding: chunked\r\n\r\n").into_bytes();
            for chunk in bytes.chunks(4096) {
              raw.extend(format!("{:x}\r\n", chunk.len()).into_bytes());
              raw.extend_from_slice(chunk);
              raw.extend(b"\r\n");
            }
            raw.extend(b"0\r\n\r\n");
            httpc::raw(port, &raw, Duration::from_secs(40)).map_err(anyhow::Error::from).and_then(|o| httpc::parse_response(&o).map(|x| x.0).ok_or_else(|| anyhow::anyhow!("no well-formed HTTP response ({} bytes: {:?})", o.len(), String::from_utf8_lossy(&o[..o.len().min(100)]))))
          } else {
            httpc::request(port, m, route, &[("Content-Type", ct)], &bytes)
          };
          (format!("{m} {route} with {}", match body { Body::Hostile(..) => "a hostile search request".to_string(), b => format!("{b:?}") }), res, expect, Some(route.clone()))
        }
        Step::WrongMethod(route, m) => {
          // HEAD on a GET route is GET without a body, not an undefined method
          if m == method_of(route) || (m == "HEAD" && method_of(route) == "GET") {
            continue;
          }
          (format!("{m} {route}"), httpc::request(port, m, route, &[], b""), Expect::Refusal, None)
        }
        Step::ExternalInit => {
          if has_index {
            continue;
          }
          // another process creates the index at the served path; the service must pick it up
          let storage = crate::sut::make_storage(&root, crate::sut::StorageKind::Fs);
          if let Err(e) = crate::sut::create_index(&root, &scoreworld::schema(), crate::sut::index_options(&root, true, crate::sut::StorageKind::Fs, 0.9, 0.4), storage).map(drop) {
            out.fail("harness-external-init-failed", format!("{e:#}"));
            return out;
          }
          has_index = true;
          out.class("index-created-behind-the-service");
          ("GET /stats after the index was created by another process".to_string(), httpc::request(port, "GET", "/stats", &[], b""), Expect::Ok, Some("/stats".to_string()))
        }
        Step::UnknownPath(p) => (format!("GET {p}"), httpc::request(port, "GET", p, &[], b""), Expect::Refusal, None),
        Step::Raw(k) => {
          let junk: Vec<&[u8]> = vec![b"GARBAGE\r\n\r\n", b"GET\r\n\r\n", b"GET / HTTP/9.9\r\n\r\n", b"POST /search HTTP/1.1\r\nContent-Length: -5\r\n\r\n", b"POST /search HTTP/1.1\r\nContent-Length: abc\r\n\r\n", b"\x16\x03\x01\x02\x00\x01\x00\x01\xfc\x03\x03", b"GET /healthz HTTP/1.1\r\nHost: x\r\nBad Header\r\n\r\n", b"POST /add HTTP/1.1\r\nHost: x\r\nTransfer-Encoding: chunked\r\n\r\nzz\r\n\r\n"];
          let bytes = junk[*k as usize % junk.len()];
          let res = httpc::raw(port, bytes, Duration::from_secs(10)).map_err(anyhow::Error::from).and_then(|o| httpc::parse_response(&o).map(|x| x.0).ok_or_else(|| anyhow::anyhow!("no well-formed HTTP response ({} bytes: {:?})", o.len(), String::from_utf8_lossy(&o[..o.len().min(100)]))));
          (format!("raw bytes {:?}", String::from_utf8_lossy(bytes)), res, Expect::Refusal, None)
        }
      };
      let resp = match result {
        Ok(r) => r,
        Err(e) => {
          out.fail("no-well-formed-response", format!("{label}: {e:#}"));
          return out;
        }
      };
      let s = resp.status;
      let is_2xx = (200..300).contains(&s);
      let fits = match expect {
        Expect::Ok => is_2xx,
        Expect::Exactly(c) => s == c,
        Expect::ClientError => (400..500).contains(&s),
        Expect::OkOrClientError => is_2xx || (400..500).contains(&s),
        Expect::Refusal => !is_2xx && (300..600).contains(&s),
      };
      if !fits {
        let sig = if (500..600).contains(&s) { "server-error-for-client-input".to_string() } else { format!("unexpected-status-{}", match expect { Expect::Ok => "for-valid-request".to_string(), Expect::Exactly(c) => format!("instead-of-{c}"), Expect::ClientError => "for-invalid-request".to_string(), Expect::OkOrClientError => "for-request".to_string(), Expect::Refusal => "for-undefined-request".to_string() }) };
        out.fail(sig, format!("{label}: status {s} (expected {expect:?}; index {}); body {:?}", if has_index { "exists" } else { "missing" }, String::from_utf8_lossy(&resp.body[..resp.body.len().min(300)])));
        return out;
      }
      if let Some(route) = route.as_ref() {
        let shape = if is_2xx { success_shape(route, &resp) } else { error_shape(&resp) };
        if let Err(why) = shape {
          out.fail(if is_2xx { "success-body-malformed" } else { "error-body-malformed" }, format!("{label}: status {s}: {why}"));
          return out;
        }
        if route == "/init" && is_2xx {
          has_index = true;
          if let Step::Call(_, b) = step {
            if !matches!(b, Body::Valid(_)) {
              schema_known = false;
            }
          }
        }
        if (400..500).contains(&s) && s != 404 && s != 405 {
          out.class(format!("rejected-by-handler:{route}"));
          out.nontrivial(fingerprint_json(&(route, &label)));
        }
      }
      // the server is still there
      match httpc::request(port, "GET", "/healthz", &[], b"") {
        Ok(r) if r.status == 200 => {}
        other => {
          out.fail("server-down-after-request", format!("after {label}: /healthz gives {:?}", other.map(|r| r.status).map_err(|e| format!("{e:#}"))));
          return out;
        }
      }
    }
    drop(srv);
    out
  }
}
