pub mod c04;
pub mod c15;
pub mod c08;
pub mod c07;
pub mod c14;
pub mod c09;
