#!/bin/bash
# tools/multiseed.sh "<seeds>" "<ids|all>" [tier] — silence run: every listed check under several VERIF_SEED values.
# Prints one line per (seed, id); exits 1 if any run was not quiet (rc != 0 or a VIOLATION line).
cd /verif
SEEDS="${1:-1 2 3 4 5}"
IDS="${2:-all}"
TIER="${3:-quick}"
if [ "$IDS" = all ]; then
  IDS=$(python3 -c "import json; print(' '.join(c['property_id'] for c in json.load(open('MANIFEST.json'))['checks']))")
fi
bad=0
for seed in $SEEDS; do
  for id in $IDS; do
    out=$(VERIF_SEED=$seed ./check $id --tier $TIER 2>&1); rc=$?
    v=$(echo "$out" | grep -c "^VIOLATION")
    line=$(echo "$out" | grep -E "^$id " | tail -1)
    echo "seed=$seed $id rc=$rc violations=$v $line"
    if [ $rc -ne 0 ] || [ $v -ne 0 ]; then bad=1; echo "$out" | grep -E -A1 "^VIOLATION" | head -6; fi
  done
done
exit $bad
