#!/bin/bash
# tools/c16_fuzz.sh <runs> — coverage-guided tier of C16 (libFuzzer via cargo-fuzz, nightly, ASan, debug assertions and
# overflow checks ON): seed corpus = generated + mutated requests from the proptest generators; a crash artifact is
# converted into a C16 replay file and reported as a violation. Exit 0 quiet, 1 violation, 2 cannot run.
set -u
ROOT="$(cd "$(dirname "$0")/.." && pwd)"
RUNS="${1:-400000}"
SEED=$(( ${VERIF_SEED:-0} + 1 ))
CORPUS="/dev/shm/slverif/c16corpus-$$"
[ -d /dev/shm ] || CORPUS="$ROOT/target/scratch/c16corpus-$$"
ART="$ROOT/target/fuzz-artifacts-$$/"
rm -rf "$CORPUS" "$ART"; mkdir -p "$CORPUS" "$ART" "$ROOT/replays/C16"
"$ROOT/target/release/check" C16 --dump-corpus "$CORPUS" 1000 >/dev/null || { echo "cannot generate the seed corpus" >&2; exit 2; }
# inputs that crashed the target once stay in every corpus (libFuzzer executes the whole corpus first)
cp "$ROOT"/regressions/C16-fuzz/* "$CORPUS"/ 2>/dev/null
LOG="$ROOT/target/fuzz-C16.log"
( cd "$ROOT/harness" && CARGO_NET_OFFLINE=true cargo +nightly fuzz build c16_request_json ) >"$LOG" 2>&1 || { echo "fuzz target build failed (exit 2, not a violation); see $LOG" >&2; tail -20 "$LOG" >&2; rm -rf "$CORPUS" "$ART"; exit 2; }
( cd "$ROOT/harness" && ASAN_OPTIONS=detect_leaks=0 CARGO_NET_OFFLINE=true cargo +nightly fuzz run c16_request_json "$CORPUS" -- -runs="$RUNS" -seed="$SEED" -max_len=8192 -len_control=0 -timeout=120 -rss_limit_mb=8000 -detect_leaks=0 -artifact_prefix="$ART" ) >>"$LOG" 2>&1
rc=$?
STATS=$(grep -E "DONE|cov:" "$LOG" | tail -1 | sed 's/^#//')
echo "C16 fuzz tier: runs=$RUNS seed=$SEED :: $STATS"
code=0
for f in "$ART"*; do
  [ -f "$f" ] || continue
  kind=$(basename "$f" | cut -d- -f1)   # crash / timeout / oom / leak
  dest="$ROOT/replays/C16/fuzz-$(basename "$f").json"
  python3 - "$f" "$dest" "$kind" <<'PY'
import json,sys
raw=open(sys.argv[1],'rb').read()
try:
    req=json.loads(raw.decode('utf-8'))
except Exception:
    req={"undecodable_input_hex": raw.hex()}
json.dump({"property":"C16","signature":"fuzz-"+sys.argv[3],"detail":"libFuzzer artifact (debug assertions, overflow checks and ASan on); raw input: "+repr(raw[:2000]),
           "case":{"pool":0,"request":req,"mutations":[],"cursor_edit":None}}, open(sys.argv[2],'w'), indent=1)
PY
  echo "VIOLATION property=C16 replay=$dest"
  echo "  signature: fuzz-$kind"
  code=1
done
if [ $code -eq 0 ] && [ $rc -ne 0 ]; then
  echo "fuzz run ended with status $rc without an artifact (exit 2, not a violation); see $LOG" >&2
  code=2
fi
# record what the campaign covered next to the proptest evidence
python3 - "$ROOT/evidence/C16.json" "$RUNS" "$SEED" "$STATS" "$code" <<'PY'
import json,sys
p=sys.argv[1]
try:
    e=json.load(open(p))
except Exception:
    sys.exit(0)
e.setdefault("coverage",{})["fuzz_tier"]={"engine":"libFuzzer (cargo-fuzz, nightly, ASan, debug assertions + overflow checks)","target":"harness/fuzz/fuzz_targets/c16_request_json.rs","runs":int(sys.argv[2]),"seed":int(sys.argv[3]),"last_status_line":sys.argv[4],"seed_corpus":"1000 generated + mutated requests (check C16 --dump-corpus)","result":{0:"quiet",1:"violation",2:"inconclusive"}[int(sys.argv[5])]}
if int(sys.argv[5])==1:
    e["violations"]=e.get("violations",0)+1
json.dump(e,open(p,'w'),indent=1)
PY
rm -rf "$CORPUS" "$ART"
exit $code
