//! C14 — compaction preserves observable contents (before/after metamorphic check).
use std::collections::BTreeMap;

use proptest::collection::vec;
use proptest::prelude::*;
use proptest::sample::select;
use serde::{Deserialize, Serialize};
use serde_json::{json, Value};

use crate::corpus::{self, CorpusOpts, CorpusPlan};
use crate::engine::{fingerprint_json, Ctx, Outcome, Plan, Property, Tier};
use crate::gen::{self, DocOpts, SchemaOpts, SchemaSpec};
use crate::model::{leaves, normal, Kind};
use crate::props::c08;
use crate::qgen::QGen;
use crate::sut::{self, Scratch, StorageKind};

#[derive(Clone, Debug, Serialize, Deserialize)]
pub struct Case {
  pub schema: SchemaSpec,
  pub storage: StorageKind,
  pub plan: CorpusPlan,
  pub queries: Vec<Value>,
  pub filters: Vec<Value>,
}

pub struct C14;

pub const SIG_NESTED_SHAPE: &str = "compaction-drops-empty-nested-objects";

/// term queries over nested (dotted) text/keyword leaves
fn nested_leaf_queries(schema: &SchemaSpec) -> BoxedStrategy<Value> {
  let fields: Vec<(String, Kind)> = leaves(schema).into_iter().filter(|l| l.path.contains('.') && l.indexed && matches!(l.kind, Kind::Text | Kind::Keyword)).map(|l| (l.path, l.kind)).collect();
  if fields.is_empty() {
    return Just(json!({"type": "match_all"})).boxed();
  }
  let words: Vec<String> = gen::WORDS[..8].iter().map(|s| s.to_string()).collect();
  let kws: Vec<String> = gen::KEYWORDS.iter().filter(|s| !s.is_empty()).map(|s| s.to_string()).collect();
  (select(fields), select(words.clone()), select(words), select(kws), 0u32..4)
    .prop_map(|((f, k), w, w2, kw, shape)| match (k, shape) {
      (Kind::Keyword, _) => json!({"type": "term", "field": f, "value": kw}),
      (_, 0) => json!({"type": "phrase", "field": f, "terms": [w, w2], "slop": 1}),
      (_, 1) => json!({"type": "prefix", "field": f, "value": w.chars().take(2).collect::<String>()}),
      _ => json!({"type": "term", "field": f, "value": w}),
    })
    .boxed()
}

struct Snapshot {
  contents: BTreeMap<String, Option<Value>>,
  results: Vec<Result<Vec<String>, String>>,
}

fn snapshot(idx: &searchlite_core::api::Index, case: &Case, limit: usize) -> Result<Snapshot, String> {
  let reader = idx.reader().map_err(|e| format!("reader(): {e:#}"))?;
  let (got, _) = sut::contents(&reader, limit).map_err(|e| format!("match_all: {e:#}"))?;
  let mut contents = BTreeMap::new();
  for (id, f) in got {
    if contents.insert(id.clone(), normal(&f)).is_some() {
      return Err(format!("id {id} returned twice"));
    }
  }
  let mut results = Vec::new();
  for q in case.queries.iter() {
    let r = sut::search(&reader, json!({"query": q, "limit": limit, "execution": "bm25"}));
    results.push(r.map(|r| { let mut v = sut::hit_ids(&r); v.sort(); v }).map_err(|e| format!("{e:#}")));
  }
  for f in case.filters.iter() {
    let r = sut::search(&reader, json!({"query": {"type": "match_all"}, "filter": f, "limit": limit, "execution": "bm25"}));
    results.push(r.map(|r| { let mut v = sut::hit_ids(&r); v.sort(); v }).map_err(|e| format!("{e:#}")));
  }
  Ok(Snapshot { contents, results })
}

/// Phrase queries that straddle the boundary between two values of a multi-valued text field (skipping
/// blank members in between): positions across values are exactly what a rebuild from stored values
/// has to reproduce. Derived from the plan's final document versions; at most 12.
fn boundary_phrases(case: &Case) -> Vec<Value> {
  let mut live: BTreeMap<String, &serde_json::Map<String, Value>> = BTreeMap::new();
  for b in case.plan.batches.iter() {
    for d in b.deletes.iter() {
      live.remove(d);
    }
    for (id, body) in b.adds.iter() {
      live.insert(id.clone(), body);
    }
  }
  let word = |s: &str, last: bool| -> Option<String> {
    let mut it = s.split(|c: char| !c.is_alphanumeric()).filter(|w| !w.is_empty());
    let w = if last { it.next_back() } else { it.next() };
    w.map(|w| w.to_lowercase())
  };
  let mut out = Vec::new();
  for body in live.values() {
    for t in case.schema.text.iter().filter(|t| t.indexed) {
      let Some(Value::Array(vals)) = body.get(&t.name) else { continue };
      let strs: Vec<&str> = vals.iter().filter_map(|v| v.as_str()).collect();
      let solid: Vec<(usize, &str)> = strs.iter().enumerate().filter(|(_, s)| !s.trim().is_empty()).map(|(i, s)| (i, *s)).collect();
      for pair in solid.windows(2) {
        if let (Some(a), Some(b)) = (word(pair[0].1, true), word(pair[1].1, false)) {
          let gap = pair[1].0 - pair[0].0; // > 1 when blank members sit in between
          for slop in [0usize, gap.saturating_sub(1), gap] {
            let q = json!({"type": "phrase", "field": t.name, "terms": [a, b], "slop": slop});
            if !out.contains(&q) {
              out.push(q);
            }
          }
        }
        if out.len() >= 12 {
          return out;
        }
      }
    }
  }
  out
}

/// does any live document hold an empty object / null member / empty array inside a nested value?
fn has_droppable_nested(schema: &SchemaSpec, docs: &BTreeMap<String, Value>) -> bool {
  fn droppable(v: &Value, top: bool) -> bool {
    match v {
      Value::Null => !top,
      Value::Array(a) => (a.is_empty() && !top) || a.iter().any(|x| droppable(x, false)),
      Value::Object(m) => m.is_empty() || m.values().any(|x| droppable(x, false)),
      _ => false,
    }
  }
  docs.values().any(|d| schema.nested.iter().any(|n| d.get(&n.name).map(|v| droppable(v, true) || match v { Value::Array(a) => a.iter().any(|x| x.as_object().map(|o| o.is_empty()).unwrap_or(false)), Value::Object(o) => o.is_empty(), _ => false }).unwrap_or(false)))
}

impl Property for C14 {
  type Case = Case;
  const ID: &'static str = "C14";
  fn rule() -> String {
    "cases = random schema (text/keyword/numeric/nested, mostly with every indexed/fast field stored, sometimes not), a history of 1-5 commits with upserts and deletes, 10 queries (top-level trees plus term/phrase/prefix over nested leaves) and 10 filter trees; live ids + stored fields (normal form) and the id set of every query/filter are captured before and after Index::compact and must be equal; after a rewrite the manifest holds <=1 segment without tombstones; a refusal (Err) must leave manifest, contents and results unchanged. Non-trivial = >=2 segments and >=1 tombstone before compaction succeeded and a nested or multi-valued field is present; distinct = hash of the plan".into()
  }
  fn assumptions() -> Vec<String> {
    vec!["scores are not compared (segment statistics legitimately change); an Err from compact counts as a refusal".into()]
  }
  fn plan(tier: Tier) -> Plan {
    Plan { workers: 16, cases_per_worker: tier.pick(700, 15000) }
  }
  fn strategy(_tier: Tier) -> BoxedStrategy<Case> {
    let compactable = SchemaOpts { force_compactable: true, custom_id: true, nested_depth: 2, ..SchemaOpts::default() };
    let free = SchemaOpts { nested_depth: 2, ..SchemaOpts::default() };
    let schema = prop_oneof![5 => gen::schema(compactable), 1 => gen::schema(free)];
    (schema, prop_oneof![3 => Just(StorageKind::Mem), 1 => Just(StorageKind::Fs)])
      .prop_flat_map(|(schema, storage)| {
        let d = DocOpts { text: gen::TextOpts { max_words: 5, odd: true, vocab: 10 }, max_multi: 3, absent: 2, max_nested_objs: 3, null_items: true, extremes: true };
        let plan = corpus::plan(&schema, CorpusOpts { ids: 10, max_batches: 5, max_adds: 5, deletes: true, doc: d });
        let mut g = QGen::new(&schema, 10, true);
        g.scoring = false;
        let queries = vec(prop_oneof![2 => g.tree(2), 1 => nested_leaf_queries(&schema)], 10);
        let filters = vec(c08::root_filter(&schema, 3), 10);
        (Just(schema), Just(storage), plan, queries, filters)
      })
      .prop_map(|(schema, storage, plan, queries, filters)| Case { schema, storage, plan, queries, filters })
      .boxed()
  }
  fn run(case: &Case, ctx: &Ctx) -> Outcome {
    let mut out = Outcome::new();
    out.evals = 1;
    // the generated queries plus phrases derived from the documents themselves (deterministic in the case)
    let extended = {
      let mut c = case.clone();
      let d = boundary_phrases(&c);
      if !d.is_empty() {
        out.class("boundary-phrases");
      }
      c.queries.extend(d);
      c
    };
    let case = &extended;
    let scratch = Scratch::new("c14");
    let root = scratch.sub("idx");
    let storage = sut::make_storage(&root, case.storage);
    let opts = sut::default_options(&root, case.storage);
    let idx = match sut::create_index(&root, &case.schema, opts.clone(), storage.clone()) {
      Ok(i) => i,
      Err(e) => {
        out.fail("create-failed", format!("{e:#}"));
        return out;
      }
    };
    let built = match corpus::build(&idx, &case.schema, &case.plan) {
      Ok(b) => b,
      Err(e) => {
        out.fail("corpus-build-failed", format!("{e:#}"));
        return out;
      }
    };
    let limit = built.live.len() + 20;
    let before = match snapshot(&idx, case, limit) {
      Ok(s) => s,
      Err(e) => {
        out.fail("snapshot-failed", format!("before compaction: {e}"));
        return out;
      }
    };
    if std::env::var("VERIF_DEBUG_C14").is_ok() {
      eprintln!("queries {:?}\nbefore {:?}", case.queries, before.results);
    }
    let manifest_before = idx.manifest();
    let seg_before = manifest_before.segments.len();
    let tomb_before: usize = manifest_before.segments.iter().map(|s| s.deleted_docs.len()).sum();
    let res = idx.compact();
    let manifest_after = idx.manifest();
    match &res {
      Ok(()) => {
        if seg_before >= 2 {
          out.class("rewrote");
          if manifest_after.segments.len() > 1 {
            out.fail("more-than-one-segment-after-compaction", format!("{} segments remain", manifest_after.segments.len()));
            return out;
          }
          let tomb: usize = manifest_after.segments.iter().map(|s| s.deleted_docs.len()).sum();
          if tomb > 0 {
            out.fail("tombstones-after-compaction", format!("{tomb} deleted docs remain in the rewritten segment"));
            return out;
          }
        } else {
          out.class("noop");
        }
      }
      Err(_) => {
        out.class(if case.schema.compactable() { "refused-on-compactable-schema" } else { "refused" });
        let ids_a: Vec<&String> = manifest_after.segments.iter().map(|s| &s.id).collect();
        let ids_b: Vec<&String> = manifest_before.segments.iter().map(|s| &s.id).collect();
        if ids_a != ids_b {
          out.fail("refusal-changed-manifest", format!("compact returned Err but the segment list changed from {ids_b:?} to {ids_a:?}"));
          return out;
        }
      }
    }
    // both through the same Index and through a fresh open from storage
    let reopened = match searchlite_core::api::Index::open_with_storage(opts, storage) {
      Ok(i) => i,
      Err(e) => {
        out.fail("reopen-failed", format!("Index::open after compaction failed: {e:#}"));
        return out;
      }
    };
    let region = has_droppable_nested(&case.schema, &built.live);
    for (label, handle) in [("same index", &idx), ("reopened", &reopened)] {
      let after = match snapshot(handle, case, limit) {
        Ok(s) => s,
        Err(e) => {
          out.fail("snapshot-failed", format!("after compaction ({label}): {e}"));
          return out;
        }
      };
      if std::env::var("VERIF_DEBUG_C14").is_ok() {
        eprintln!("after ({label}) {:?} contents {:?} compact {:?}", after.results, after.contents, res.is_ok());
      }
      if after.contents != before.contents {
        let diff: Vec<String> = before.contents.keys().chain(after.contents.keys()).filter(|k| before.contents.get(*k) != after.contents.get(*k)).take(2).map(|k| format!("{k}: before {:?} after {:?}", before.contents.get(k), after.contents.get(k))).collect();
        out.fail("contents-changed", format!("compaction ({:?}) changed live documents or stored fields ({label}): {}", res.is_ok(), diff.join("; ")));
        return out;
      }
      for (i, (b, a)) in before.results.iter().zip(after.results.iter()).enumerate() {
        if b != a {
          let what = if i < case.queries.len() { format!("query {}", case.queries[i]) } else { format!("filter {}", case.filters[i - case.queries.len()]) };
          let detail = format!("{what}: matched {:?} before compaction and {:?} after ({label})", b, a);
          let is_filter = i >= case.queries.len();
          if !is_filter {
            // The listed C07 finding (candidates come from scored terms only) makes a result depend
            // on which terms the segment dictionaries still hold, and compaction purges the terms of
            // deleted documents. Differences confined to documents without any scored term of the
            // query are that finding, not a compaction defect.
            if let (Ok(bv), Ok(av)) = (b, a) {
              let docs: Vec<(String, Value)> = built.live.iter().map(|(k, v)| (k.clone(), v.clone())).collect();
              let corpus = crate::qmodel::Corpus::with_ghosts(&case.schema, &docs, &built.ghosts);
              let all_text: Vec<String> = case.schema.text.iter().map(|t| t.name.clone()).collect();
              let model = crate::qmodel::QueryModel::new(&corpus, all_text, None);
              let mut keys = Vec::new();
              model.scored_keys(&case.queries[i], true, &mut keys);
              let differing: Vec<&String> = bv.iter().filter(|x| !av.contains(x)).chain(av.iter().filter(|x| !bv.contains(x))).collect();
              let explained = differing.iter().all(|id| corpus.docs.iter().find(|d| d.id == **id).map(|d| !model.doc_has_scored_key(d, &keys)).unwrap_or(false));
              // (only a query that has scored terms at all can be affected by that finding)
              if explained && !keys.is_empty() && ctx.is_known("C07", crate::props::c07::SIG_CANDIDATES) {
                out.excluded_known += 1;
                out.class("difference-explained-by-C07-known-finding");
                continue;
              }
            }
          }
          if is_filter && region && res.is_ok() {
            out.fail(SIG_NESTED_SHAPE, detail);
            if ctx.is_known(Self::ID, SIG_NESTED_SHAPE) {
              out.excluded_known += 1;
              continue;
            }
          } else {
            out.fail("match-set-changed", detail);
          }
          return out;
        }
      }
    }
    let multi = built.live.values().any(|d| d.as_object().unwrap().values().any(|v| v.as_array().map(|a| a.len() > 1).unwrap_or(false)));
    if res.is_ok() && seg_before >= 2 && tomb_before >= 1 {
      out.class("tombstones-before");
      if multi || !case.schema.nested.is_empty() {
        out.nontrivial(fingerprint_json(&case.plan));
      }
    }
    out
  }
}
