//! Reference query matcher over raw JSON documents: documented boolean semantics of every
//! query node, evaluated three-valued (lo = must match, hi = may match) so that behaviour the
//! documentation leaves open never raises an alarm.
use std::collections::{BTreeMap, BTreeSet};

use regex::Regex;
use searchlite_core::analysis::analyzer::Analyzer;
use serde_json::Value;

use crate::fmodel;
use crate::gen::SchemaSpec;
use crate::model::strings_of;

#[derive(Clone, Copy, Debug, PartialEq, Eq)]
pub struct Tri {
  pub lo: bool,
  pub hi: bool,
}

impl Tri {
  pub const T: Tri = Tri { lo: true, hi: true };
  pub const F: Tri = Tri { lo: false, hi: false };
  pub const U: Tri = Tri { lo: false, hi: true };
  pub fn of(b: bool) -> Tri {
    Tri { lo: b, hi: b }
  }
  pub fn not(self) -> Tri {
    Tri { lo: !self.hi, hi: !self.lo }
  }
  pub fn and(self, o: Tri) -> Tri {
    Tri { lo: self.lo && o.lo, hi: self.hi && o.hi }
  }
  pub fn or(self, o: Tri) -> Tri {
    Tri { lo: self.lo || o.lo, hi: self.hi || o.hi }
  }
}

fn at_least(items: &[Tri], n: usize) -> Tri {
  Tri { lo: items.iter().filter(|t| t.lo).count() >= n, hi: items.iter().filter(|t| t.hi).count() >= n }
}

/// A document as the index sees it: per text field the tokens with positions (and the value each
/// came from), per keyword field the lower-cased values.
#[derive(Clone, Debug, Default)]
pub struct DocView {
  pub id: String,
  pub json: Value,
  /// field -> (token, position, value index)
  pub text: BTreeMap<String, Vec<(String, u32, usize)>>,
  pub keyword: BTreeMap<String, Vec<String>>,
}

pub struct Corpus {
  pub schema: SchemaSpec,
  pub analyzers: searchlite_core::Schema,
  pub docs: Vec<DocView>,
  /// documents that are no longer live (deleted / overwritten) but whose terms are still in
  /// the segment dictionaries: they only contribute to term-dictionary expansions
  pub ghosts: Vec<DocView>,
}

impl Corpus {
  pub fn new(schema: &SchemaSpec, docs: &[(String, Value)]) -> Corpus {
    Corpus::with_ghosts(schema, docs, &[])
  }

  pub fn with_ghosts(schema: &SchemaSpec, docs: &[(String, Value)], ghosts: &[(String, Value)]) -> Corpus {
    let core_schema = schema.to_schema();
    let live = Self::views(schema, &core_schema, docs);
    let ghost_views = Self::views(schema, &core_schema, ghosts);
    Corpus { schema: schema.clone(), analyzers: core_schema, docs: live, ghosts: ghost_views }
  }

  fn views(schema: &SchemaSpec, core_schema: &searchlite_core::Schema, docs: &[(String, Value)]) -> Vec<DocView> {
    let an = core_schema.build_analyzers().expect("analyzers");
    let mut views = Vec::new();
    for (id, d) in docs.iter() {
      let mut v = DocView { id: id.clone(), json: d.clone(), ..Default::default() };
      let obj = d.as_object().cloned().unwrap_or_default();
      for t in schema.text.iter().filter(|t| t.indexed) {
        let Some(analyzer) = an.index_analyzer(&t.name) else { continue };
        let mut toks = Vec::new();
        let mut offset = 0u32;
        for (vi, s) in strings_of(obj.get(&t.name)).iter().enumerate() {
          let tokens = analyzer.analyze(s);
          for tok in tokens.iter() {
            toks.push((tok.text.clone(), offset + tok.position, vi));
          }
          match tokens.iter().map(|t| t.position).max() {
            Some(m) => offset += m + 1,
            None => offset += 1,
          }
        }
        v.text.insert(t.name.clone(), toks);
      }
      for k in schema.keyword.iter().filter(|k| k.indexed) {
        let vals: Vec<String> = strings_of(obj.get(&k.name)).iter().map(|s| s.to_ascii_lowercase()).collect();
        v.keyword.insert(k.name.clone(), vals);
      }
      views.push(v);
    }
    views
  }

  /// dictionary of indexed terms of a field over the given documents
  pub fn dictionary(&self, field: &str) -> BTreeSet<String> {
    let mut out = BTreeSet::new();
    for d in self.docs.iter().chain(self.ghosts.iter()) {
      if let Some(t) = d.text.get(field) {
        out.extend(t.iter().map(|x| x.0.clone()));
      }
      if let Some(k) = d.keyword.get(field) {
        out.extend(k.iter().cloned());
      }
    }
    out
  }
}

#[derive(Clone, Debug)]
pub struct Fuzzy {
  pub max_edits: usize,
  pub prefix_length: usize,
  pub max_expansions: usize,
  pub min_length: usize,
}

impl Fuzzy {
  pub fn from_json(v: &Value) -> Option<Fuzzy> {
    let m = v.as_object()?;
    Some(Fuzzy {
      max_edits: m.get("max_edits").and_then(|x| x.as_u64()).unwrap_or(1) as usize,
      prefix_length: m.get("prefix_length").and_then(|x| x.as_u64()).unwrap_or(1) as usize,
      max_expansions: m.get("max_expansions").and_then(|x| x.as_u64()).unwrap_or(50) as usize,
      min_length: m.get("min_length").and_then(|x| x.as_u64()).unwrap_or(3) as usize,
    })
  }
}

pub fn levenshtein(a: &str, b: &str) -> usize {
  let a: Vec<char> = a.chars().collect();
  let b: Vec<char> = b.chars().collect();
  let mut prev: Vec<usize> = (0..=b.len()).collect();
  for i in 1..=a.len() {
    let mut cur = vec![i; b.len() + 1];
    for j in 1..=b.len() {
      let cost = if a[i - 1] == b[j - 1] { 0 } else { 1 };
      cur[j] = (prev[j] + 1).min(cur[j - 1] + 1).min(prev[j - 1] + cost);
    }
    prev = cur;
  }
  prev[b.len()]
}

#[derive(Default, Debug, Clone)]
pub struct Regions {
  /// treat wildcard/regex nodes whose pattern analysis is lossy as don't-care
  pub lenient_pattern: bool,
  /// documents holding none of the query's scored terms are don't-care
  pub lenient_candidates: bool,
}

pub struct QueryModel<'a> {
  pub corpus: &'a Corpus,
  pub default_fields: Vec<String>,
  pub fuzzy: Option<Fuzzy>,
  pub regions: Regions,
  search: BTreeMap<String, Analyzer>,
  dict: BTreeMap<String, BTreeSet<String>>,
  /// set while evaluating: did evaluation touch a lossy pattern node
  pub touched_lossy_pattern: std::cell::Cell<bool>,
}

#[derive(Clone, Copy, PartialEq, Eq, Debug)]
enum FieldKind {
  Text,
  Keyword,
  Other,
}

impl<'a> QueryModel<'a> {
  pub fn new(corpus: &'a Corpus, default_fields: Vec<String>, fuzzy: Option<Fuzzy>) -> Self {
    let an = corpus.analyzers.build_analyzers().expect("analyzers");
    let mut search = BTreeMap::new();
    let mut dict = BTreeMap::new();
    for t in corpus.schema.text.iter() {
      if let Some(a) = an.search_analyzer(&t.name) {
        search.insert(t.name.clone(), a.clone());
      }
      dict.insert(t.name.clone(), corpus.dictionary(&t.name));
    }
    for k in corpus.schema.keyword.iter() {
      dict.insert(k.name.clone(), corpus.dictionary(&k.name));
    }
    QueryModel { corpus, default_fields, fuzzy, regions: Regions::default(), search, dict, touched_lossy_pattern: std::cell::Cell::new(false) }
  }

  fn kind(&self, field: &str) -> FieldKind {
    if self.corpus.schema.text.iter().any(|t| t.name == field) {
      FieldKind::Text
    } else if self.corpus.schema.keyword.iter().any(|k| k.name == field) {
      FieldKind::Keyword
    } else {
      FieldKind::Other
    }
  }

  fn doc_terms<'d>(&self, doc: &'d DocView, field: &str) -> Vec<&'d str> {
    if let Some(t) = doc.text.get(field) {
      t.iter().map(|x| x.0.as_str()).collect()
    } else if let Some(k) = doc.keyword.get(field) {
      k.iter().map(|s| s.as_str()).collect()
    } else {
      Vec::new()
    }
  }

  /// search-side tokens of a term value on a field
  fn query_tokens(&self, field: &str, value: &str) -> Vec<String> {
    match self.kind(field) {
      FieldKind::Text => match self.search.get(field) {
        Some(a) => {
          let mut seen = Vec::new();
          for t in a.analyze(value) {
            if !seen.contains(&t.text) {
              seen.push(t.text);
            }
          }
          seen
        }
        None => Vec::new(),
      },
      FieldKind::Keyword => vec![value.to_ascii_lowercase()],
      FieldKind::Other => Vec::new(),
    }
  }

  /// the set of index terms (keys) an exact/fuzzy term value stands for on a field
  fn exact_keys(&self, field: &str, value: &str, scored: bool) -> Vec<String> {
    let mut keys = Vec::new();
    for tok in self.query_tokens(field, value) {
      if !keys.contains(&tok) {
        keys.push(tok.clone());
      }
      if !scored {
        continue;
      }
      let Some(f) = self.fuzzy.as_ref() else { continue };
      let max_edits = f.max_edits.min(2);
      let len = tok.chars().count();
      if max_edits == 0 || len < f.min_length || f.max_expansions == 0 {
        continue;
      }
      let plen = f.prefix_length.min(len);
      let prefix: String = tok.chars().take(plen).collect();
      if let Some(d) = self.dict.get(field) {
        for cand in d.iter() {
          // (the engine never expands to the empty term; whether "" is a fuzzy neighbour is unspecified)
          if cand.is_empty() || *cand == tok || !cand.starts_with(&prefix) {
            continue;
          }
          let dist = levenshtein(&tok, cand);
          if dist >= 1 && dist <= max_edits && !keys.contains(cand) {
            keys.push(cand.clone());
          }
        }
      }
    }
    keys
  }

  /// pattern after the documented analysis; returns (pattern, lossy)
  fn pattern_of(&self, field: &str, value: &str, is_prefix: bool, is_regex: bool) -> (String, bool) {
    match self.kind(field) {
      FieldKind::Text => {
        let Some(a) = self.search.get(field) else { return (value.to_string(), false) };
        let normalized = a.normalize_pattern(value);
        let toks: Vec<String> = a.analyze(value).into_iter().map(|t| t.text).collect();
        if is_prefix {
          // README: the input is analysed with the field's search analyzer, then expanded
          if toks.len() == 1 {
            (toks[0].clone(), false)
          } else {
            (normalized, false)
          }
        } else {
          // A pattern with metacharacters keeps its structure (only light normalisation); a
          // metacharacter-free value is analysed like any other input (README: "analyzes the
          // input with the field's search analyzer").
          let meta: &[char] = if is_regex { &['.', '*', '+', '?', '(', ')', '[', ']', '{', '}', '|', '\\', '^', '$'] } else { &['*', '?'] };
          if value.contains(meta) {
            let lossy = toks.len() == 1 && toks[0] != normalized;
            (normalized, lossy)
          } else if toks.len() == 1 {
            (toks[0].clone(), false)
          } else {
            (normalized, false)
          }
        }
      }
      FieldKind::Keyword => (value.to_ascii_lowercase(), false),
      FieldKind::Other => (value.to_string(), false),
    }
  }

  fn pattern_keys(&self, node_type: &str, field: &str, value: &str) -> (Vec<String>, bool) {
    if self.kind(field) == FieldKind::Other {
      return (Vec::new(), false);
    }
    let (pat, lossy) = self.pattern_of(field, value, node_type == "prefix", node_type == "regex");
    let re: Option<Regex> = match node_type {
      "prefix" => None,
      "wildcard" => {
        let mut buf = String::from("^");
        for ch in pat.chars() {
          match ch {
            '*' => buf.push_str(".*"),
            '?' => buf.push('.'),
            c => buf.push_str(&regex::escape(&c.to_string())),
          }
        }
        buf.push('$');
        Regex::new(&buf).ok()
      }
      _ => Regex::new(&format!("^(?:{pat})$")).ok(),
    };
    let mut keys = Vec::new();
    if let Some(d) = self.dict.get(field) {
      for t in d.iter() {
        if t.is_empty() {
          // the engine never expands to the empty term
          continue;
        }
        let ok = match (&re, node_type) {
          (_, "prefix") => t.starts_with(&pat),
          (Some(r), _) => r.is_match(t),
          (None, _) => false,
        };
        if ok {
          keys.push(t.clone());
        }
      }
    }
    (keys, lossy)
  }

  fn has_any(&self, doc: &DocView, field: &str, keys: &[String]) -> bool {
    let terms = self.doc_terms(doc, field);
    keys.iter().any(|k| terms.contains(&k.as_str()))
  }

  /// one term group (a word over several fields): matches when any field has it
  fn group_matches(&self, doc: &DocView, fields: &[String], value: &str, scored: bool) -> bool {
    fields.iter().any(|f| {
      let keys = self.exact_keys(f, value, scored);
      self.has_any(doc, f, &keys)
    })
  }

  fn phrase_field(&self, doc: &DocView, field: &str, terms: &[String], slop: u32) -> Tri {
    if self.kind(field) != FieldKind::Text {
      // phrases over non-text fields are not documented
      return Tri::U;
    }
    let Some(a) = self.search.get(field) else { return Tri::F };
    let body = terms.join(" ");
    let toks = a.analyze(&body);
    if toks.is_empty() {
      return Tri::F;
    }
    let mut positions: Vec<Vec<String>> = Vec::new();
    for t in toks {
      let p = t.position as usize;
      if positions.len() <= p {
        positions.resize(p + 1, Vec::new());
      }
      if !positions[p].contains(&t.text) {
        positions[p].push(t.text);
      }
    }
    if positions.iter().any(|p| p.is_empty()) {
      return Tri::F;
    }
    let Some(doc_toks) = doc.text.get(field) else { return Tri::F };
    let find = |restrict: Option<usize>| -> bool {
      let per: Vec<Vec<u32>> = positions
        .iter()
        .map(|alts| {
          let mut v: Vec<u32> = doc_toks.iter().filter(|(t, _, vi)| alts.contains(t) && restrict.map(|r| r == *vi).unwrap_or(true)).map(|(_, p, _)| *p).collect();
          v.sort_unstable();
          v.dedup();
          v
        })
        .collect();
      if per.iter().any(|p| p.is_empty()) {
        return false;
      }
      if per.len() == 1 {
        return true;
      }
      fn search(per: &[Vec<u32>], idx: usize, prev: u32, remaining: i64) -> bool {
        if idx >= per.len() {
          return true;
        }
        for &p in per[idx].iter() {
          if p <= prev {
            continue;
          }
          let gap = (p - prev - 1) as i64;
          if gap > remaining {
            break;
          }
          if search(per, idx + 1, p, remaining - gap) {
            return true;
          }
        }
        false
      }
      per[0].iter().any(|&s| search(&per, 1, s, slop as i64))
    };
    let hi = find(None);
    let n_values = doc_toks.iter().map(|x| x.2).max().map(|m| m + 1).unwrap_or(0);
    let lo = (0..n_values).any(|vi| find(Some(vi)));
    Tri { lo, hi }
  }

  fn phrase(&self, doc: &DocView, fields: &[String], terms: &[String], slop: u32) -> Tri {
    let mut out = Tri::F;
    for f in fields {
      out = out.or(self.phrase_field(doc, f, terms, slop));
    }
    out
  }

  fn fields_of(&self, v: Option<&Value>) -> Option<Vec<String>> {
    let a = v?.as_array()?;
    Some(
      a.iter()
        .filter_map(|x| match x {
          Value::String(s) => Some(s.clone()),
          Value::Object(m) => m.get("field").and_then(|f| f.as_str()).map(|s| s.to_string()),
          _ => None,
        })
        .collect(),
    )
  }

  /// query_string / multi_match body
  fn string_query(&self, doc: &DocView, query: &str, fields: &[String], required: Option<usize>, scored: bool) -> Tri {
    let parsed = parse_query_string(query);
    if parsed.terms.is_empty() && parsed.phrases.is_empty() && parsed.not_terms.is_empty() {
      return Tri::F;
    }
    for (f, t) in parsed.not_terms.iter() {
      let fs = f.clone().map(|x| vec![x]).unwrap_or_else(|| fields.to_vec());
      if self.group_matches(doc, &fs, t, false) {
        return Tri::F;
      }
    }
    let mut acc = Tri::T;
    for (f, words) in parsed.phrases.iter() {
      let fs = f.clone().map(|x| vec![x]).unwrap_or_else(|| fields.to_vec());
      acc = acc.and(self.phrase(doc, &fs, words, 0));
    }
    if parsed.terms.is_empty() {
      return acc;
    }
    let hits: Vec<Tri> = parsed
      .terms
      .iter()
      .map(|(f, t)| {
        let fs = f.clone().map(|x| vec![x]).unwrap_or_else(|| fields.to_vec());
        Tri::of(self.group_matches(doc, &fs, t, scored))
      })
      .collect();
    acc.and(at_least(&hits, required.unwrap_or(1)))
  }

  pub fn eval(&self, node: &Value, doc: &DocView, scored: bool) -> Tri {
    let ty = node.get("type").and_then(|t| t.as_str()).unwrap_or("");
    match ty {
      "match_all" | "rank_feature" => Tri::T,
      "term" => {
        let field = node["field"].as_str().unwrap_or("");
        let value = node["value"].as_str().unwrap_or("");
        let keys = self.exact_keys(field, value, scored);
        Tri::of(self.has_any(doc, field, &keys))
      }
      "prefix" | "wildcard" | "regex" => {
        let field = node["field"].as_str().unwrap_or("");
        let value = node["value"].as_str().unwrap_or("");
        let (keys, lossy) = self.pattern_keys(ty, field, value);
        if lossy {
          self.touched_lossy_pattern.set(true);
          if self.regions.lenient_pattern {
            return Tri::U;
          }
        }
        Tri::of(self.has_any(doc, field, &keys))
      }
      "phrase" => {
        let fields = match node.get("field").and_then(|f| f.as_str()) {
          Some(f) => vec![f.to_string()],
          None => self.default_fields.clone(),
        };
        let terms: Vec<String> = node["terms"].as_array().map(|a| a.iter().filter_map(|x| x.as_str().map(|s| s.to_string())).collect()).unwrap_or_default();
        let slop = node.get("slop").and_then(|s| s.as_u64()).unwrap_or(0) as u32;
        self.phrase(doc, &fields, &terms, slop)
      }
      "query_string" => {
        let fields = self.fields_of(node.get("fields")).unwrap_or_else(|| self.default_fields.clone());
        self.string_query(doc, node["query"].as_str().unwrap_or(""), &fields, None, scored)
      }
      "multi_match" => {
        let fields = self.fields_of(node.get("fields")).unwrap_or_default();
        let query = node["query"].as_str().unwrap_or("");
        let n = parse_query_string(query).terms.len();
        let and = node.get("operator").and_then(|o| o.as_str()) == Some("and");
        let required = if n == 0 {
          None
        } else {
          let base = if and { n } else { 1 };
          Some(match node.get("minimum_should_match") {
            None | Some(Value::Null) => base,
            Some(Value::Number(v)) => (v.as_u64().unwrap_or(0) as usize).min(n),
            Some(Value::String(p)) => {
              let pct: f32 = p.trim_end_matches('%').parse().unwrap_or(0.0);
              (((pct / 100.0) * n as f32).ceil() as usize).min(n)
            }
            _ => base,
          })
        };
        self.string_query(doc, query, &fields, required, scored)
      }
      "dis_max" => {
        let mut out = Tri::F;
        for c in node["queries"].as_array().cloned().unwrap_or_default() {
          out = out.or(self.eval(&c, doc, scored));
        }
        out
      }
      "bool" => {
        let arr = |k: &str| node.get(k).and_then(|v| v.as_array()).cloned().unwrap_or_default();
        let (must, should, must_not, filter) = (arr("must"), arr("should"), arr("must_not"), arr("filter"));
        let mut acc = Tri::T;
        for c in must.iter() {
          acc = acc.and(self.eval(c, doc, scored));
        }
        for c in must_not.iter() {
          acc = acc.and(self.eval(c, doc, false).not());
        }
        for f in filter.iter() {
          acc = acc.and(Tri::of(fmodel::passes(&self.corpus.schema, f, &doc.json)));
        }
        let sh: Vec<Tri> = should.iter().map(|c| self.eval(c, doc, scored)).collect();
        let min = match node.get("minimum_should_match").and_then(|v| v.as_u64()) {
          Some(n) => n as usize,
          None => {
            if should.is_empty() {
              0
            } else if must.is_empty() && filter.is_empty() {
              1
            } else {
              0
            }
          }
        };
        acc.and(at_least(&sh, min))
      }
      "constant_score" => Tri::of(fmodel::passes(&self.corpus.schema, &node["filter"], &doc.json)),
      "function_score" | "script_score" => self.eval(&node["query"], doc, scored),
      _ => Tri::U,
    }
  }

  /// (field, key) pairs the engine scores (positive term-like nodes outside must_not)
  pub fn scored_keys(&self, node: &Value, scored: bool, out: &mut Vec<(String, String)>) {
    if !scored {
      return;
    }
    let ty = node.get("type").and_then(|t| t.as_str()).unwrap_or("");
    match ty {
      "term" => {
        let field = node["field"].as_str().unwrap_or("").to_string();
        for k in self.exact_keys(&field, node["value"].as_str().unwrap_or(""), true) {
          out.push((field.clone(), k));
        }
      }
      "prefix" | "wildcard" | "regex" => {
        // keys as the engine expands them are not modelled for lossy patterns; callers treat a
        // query that touches one as having unknown scored keys
        let field = node["field"].as_str().unwrap_or("").to_string();
        let (keys, _) = self.pattern_keys(ty, &field, node["value"].as_str().unwrap_or(""));
        for k in keys {
          out.push((field.clone(), k));
        }
      }
      "query_string" | "multi_match" => {
        let fields = self.fields_of(node.get("fields")).unwrap_or_else(|| self.default_fields.clone());
        for (f, t) in parse_query_string(node["query"].as_str().unwrap_or("")).terms {
          let fs = f.map(|x| vec![x]).unwrap_or_else(|| fields.clone());
          for fld in fs {
            for k in self.exact_keys(&fld, &t, true) {
              out.push((fld.clone(), k));
            }
          }
        }
      }
      "dis_max" => {
        for c in node["queries"].as_array().cloned().unwrap_or_default() {
          self.scored_keys(&c, true, out);
        }
      }
      "bool" => {
        for k in ["must", "should"] {
          for c in node.get(k).and_then(|v| v.as_array()).cloned().unwrap_or_default() {
            self.scored_keys(&c, true, out);
          }
        }
      }
      "function_score" | "script_score" => self.scored_keys(&node["query"], true, out),
      _ => {}
    }
  }

  pub fn doc_has_scored_key(&self, doc: &DocView, keys: &[(String, String)]) -> bool {
    keys.iter().any(|(f, k)| self.doc_terms(doc, f).contains(&k.as_str()))
  }
}

#[derive(Default, Debug)]
pub struct ParsedQs {
  pub terms: Vec<(Option<String>, String)>,
  pub not_terms: Vec<(Option<String>, String)>,
  pub phrases: Vec<(Option<String>, Vec<String>)>,
}

/// README grammar: whitespace separated `field:term`, `-term`, and `"quoted phrases"`
/// (optionally `"field:quoted phrase"`). Generated query strings only use this grammar.
pub fn parse_query_string(q: &str) -> ParsedQs {
  let mut out = ParsedQs::default();
  let mut rest = q.trim();
  let mut plain = String::new();
  while let Some(start) = rest.find('"') {
    plain.push_str(&rest[..start]);
    plain.push(' ');
    let after = &rest[start + 1..];
    match after.find('"') {
      Some(end) => {
        let body = &after[..end];
        let (field, words) = match body.find(':') {
          Some(i) if body[..i].chars().all(|c| c.is_alphanumeric() || c == '_') => (Some(body[..i].to_string()), &body[i + 1..]),
          _ => (None, body),
        };
        let ws: Vec<String> = words.split_whitespace().map(|s| s.to_string()).collect();
        if !ws.is_empty() {
          out.phrases.push((field, ws));
        }
        rest = &after[end + 1..];
      }
      None => {
        rest = "";
      }
    }
  }
  plain.push_str(rest);
  for raw in plain.split_whitespace() {
    let neg = raw.starts_with('-');
    let tok = raw.trim_start_matches('-');
    let (field, term) = match tok.find(':') {
      Some(i) => (Some(tok[..i].to_string()), tok[i + 1..].to_string()),
      None => (None, tok.to_string()),
    };
    if neg {
      out.not_terms.push((field, term));
    } else {
      out.terms.push((field, term));
    }
  }
  out
}
