//! A fixed "scoring" schema and corpus generator used by the ranking properties (C09-C11, C13, C18-C20).
use proptest::collection::vec;
use proptest::prelude::*;
use proptest::sample::select;
use serde::{Deserialize, Serialize};
use serde_json::{json, Map, Value};

use crate::gen::{KwSpec, NumSpec, SchemaSpec, TextSpec};
use crate::sut::{self, StorageKind};

pub fn schema() -> SchemaSpec {
  let t = |name: &str| TextSpec { name: name.into(), analyzer: "default".into(), search_analyzer: None, stored: true, indexed: true, nullable: false, saty: None };
  let k = |name: &str| KwSpec { name: name.into(), stored: true, indexed: true, fast: true, nullable: false };
  let n = |name: &str, i: bool| NumSpec { name: name.into(), i64: i, fast: true, stored: true, nullable: false };
  SchemaSpec { doc_id_field: "_id".into(), analyzers: vec![], text: vec![t("body"), t("title")], keyword: vec![k("tag"), k("cat")], numeric: vec![n("year", true), n("price", false), n("rank", true)], nested: vec![] }
}

pub const VOCAB: &[&str] = &["rust", "ruby", "rubber", "search", "engine", "fast", "quick", "brown", "fox", "the", "and", "running", "runs", "run", "jumps"];
pub const TAGS: &[&str] = &["red", "green", "blue", "x", "y"];

#[derive(Clone, Debug, Serialize, Deserialize)]
pub struct World {
  /// documents in insertion order; ids are their indices ("d<i>")
  pub docs: Vec<Map<String, Value>>,
  /// sizes of the commits (sum == docs.len())
  pub commits: Vec<usize>,
  /// ids deleted in a final delete-only commit
  pub deletes: Vec<usize>,
  pub k1: f32,
  pub b: f32,
}

#[derive(Clone, Copy, Debug)]
pub struct WorldOpts {
  pub min_docs: usize,
  pub max_docs: usize,
  pub max_commits: usize,
  pub deletes: bool,
  /// tiny value domains so that scores and sort values tie
  pub ties: bool,
  pub vocab: usize,
}

fn doc(o: WorldOpts) -> BoxedStrategy<Map<String, Value>> {
  let words: Vec<&'static str> = VOCAB[..o.vocab.min(VOCAB.len())].to_vec();
  let maxw = if o.ties { 4 } else { 9 };
  let text = vec(select(words.clone()), 0..maxw).prop_map(|w| w.join(" "));
  let title = vec(select(words), 0..3).prop_map(|w| w.join(" "));
  let tag = prop_oneof![6 => select(TAGS.to_vec()).prop_map(|s| json!(s)), 2 => vec(select(TAGS.to_vec()), 0..3).prop_map(|v| json!(v)), 2 => Just(Value::Null)];
  let cat = prop_oneof![8 => select(TAGS[..3].to_vec()).prop_map(|s| json!(s)), 2 => Just(Value::Null)];
  let year = prop_oneof![7 => (0i64..4).prop_map(|v| json!(v)), 2 => vec(0i64..6, 0..3).prop_map(|v| json!(v)), 1 => Just(Value::Null)];
  let price = prop_oneof![7 => (0i32..6).prop_map(|v| json!(v as f64 * 0.5)), 2 => vec((0i32..9).prop_map(|v| v as f64 * 0.25), 0..3).prop_map(|v| json!(v)), 1 => Just(Value::Null)];
  let rank = prop_oneof![8 => (1i64..50).prop_map(|v| json!(v)), 1 => Just(Value::Null)];
  (text, title, tag, cat, year, price, rank)
    .prop_map(|(body, title, tag, cat, year, price, rank)| {
      let mut m = Map::new();
      m.insert("body".into(), json!(body));
      if !title.is_empty() {
        m.insert("title".into(), json!(title));
      }
      for (k, v) in [("tag", tag), ("cat", cat), ("year", year), ("price", price), ("rank", rank)] {
        if !v.is_null() {
          m.insert(k.into(), v);
        }
      }
      m
    })
    .boxed()
}

pub fn world(o: WorldOpts) -> BoxedStrategy<World> {
  (vec(doc(o), o.min_docs..=o.max_docs), vec(1usize..100, 1..=o.max_commits.max(1)), vec(any::<u16>(), 0..4), select(vec![(1.2f32, 0.75f32), (0.9, 0.4), (1.2, 0.0), (2.0, 1.0)]))
    .prop_map(move |(docs, weights, dels, (k1, b))| {
      let n = docs.len();
      let total: usize = weights.iter().sum();
      let mut commits: Vec<usize> = weights.iter().map(|w| w * n / total.max(1)).collect();
      let assigned: usize = commits.iter().sum();
      if let Some(last) = commits.last_mut() {
        *last += n - assigned;
      }
      commits.retain(|c| *c > 0);
      if commits.is_empty() {
        commits.push(n);
      }
      let mut deletes: Vec<usize> = if o.deletes && n > 0 { dels.iter().map(|s| (*s as usize * n) >> 16).collect() } else { Vec::new() };
      deletes.sort_unstable();
      deletes.dedup();
      World { docs, commits, deletes, k1, b }
    })
    .boxed()
}

pub struct Built {
  pub idx: searchlite_core::api::Index,
  pub scratch: sut::Scratch,
  /// live docs: (id, json, segment ordinal, doc ordinal within the segment)
  pub live: Vec<(String, Value, usize, usize)>,
  pub segments: usize,
}

impl World {
  pub fn doc_json(&self, i: usize) -> Value {
    let mut m = self.docs[i].clone();
    m.insert("_id".into(), json!(format!("d{i:05}")));
    Value::Object(m)
  }

  /// Builds an in-memory index. Documents of one commit are written in id order (the writer sorts
  /// by id), ids are zero-padded so that id order == insertion order.
  pub fn build(&self, tag: &str) -> anyhow::Result<Built> {
    let scratch = sut::Scratch::new(tag);
    let root = scratch.sub("idx");
    let storage = sut::make_storage(&root, StorageKind::Mem);
    let opts = sut::index_options(&root, true, StorageKind::Mem, self.k1, self.b);
    let idx = sut::create_index(&root, &schema(), opts, storage)?;
    let mut w = idx.writer()?;
    let mut next = 0usize;
    let mut live = Vec::new();
    for (seg, c) in self.commits.iter().enumerate() {
      for ord in 0..*c {
        let d = self.doc_json(next);
        w.add_document(&sut::document(&d))?;
        live.push((format!("d{next:05}"), d, seg, ord));
        next += 1;
      }
      w.commit()?;
    }
    if !self.deletes.is_empty() {
      let ids: Vec<String> = self.deletes.iter().map(|i| format!("d{i:05}")).collect();
      w.delete_documents(&ids)?;
      w.commit()?;
      live.retain(|(id, _, _, _)| !ids.contains(id));
    }
    drop(w);
    let segments = idx.manifest().segments.len();
    Ok(Built { idx, scratch, live, segments })
  }
}

/// sort plans over `_score` and the fast fields
pub fn sort_plan(max_keys: usize) -> BoxedStrategy<Vec<Value>> {
  let key = (select(vec!["_score", "tag", "cat", "year", "price", "rank"]), proptest::option::of(select(vec!["asc", "desc"]))).prop_map(|(f, o)| match o {
    Some(o) => json!({"field": f, "order": o}),
    None => json!({"field": f}),
  });
  vec(key, 0..=max_keys).boxed()
}
