//! C19 — rescoring only affects the rescore window (oracle: the same request without rescore plus
//! standalone searches for the rescore query).
use std::collections::BTreeMap;

use proptest::collection::vec;
use proptest::prelude::*;
use proptest::sample::select;
use serde::{Deserialize, Serialize};
use serde_json::{json, Value};

use crate::engine::{fingerprint_json, Ctx, Outcome, Plan, Property, Tier};
use crate::qgen::QGen;
use crate::rank::{close, hits, H};
use crate::scoreworld::{self, World, WorldOpts};
use crate::sut;

#[derive(Clone, Debug, Serialize, Deserialize)]
pub struct Case {
  pub world: World,
  pub query: Value,
  pub rescore_query: Value,
  /// min_score put on a function_score wrapper around the rescore query (drops documents)
  pub min_score: Option<f64>,
  pub window: usize,
  pub mode: String,
  pub limit: usize,
  pub candidate_size: Option<usize>,
  /// a leading sort key (single-valued fast field, order) in front of `_score desc`
  #[serde(default)]
  pub lead: Option<(String, String)>,
}

pub struct C19;

pub const SIG_TAIL: &str = "rescore-sorts-unrescored-hits-into-the-window-after-drops";

/// rescore queries whose every match contains a scored term (so a standalone search finds all of them)
pub fn rescore_query() -> BoxedStrategy<Value> {
  let word = select(scoreworld::VOCAB[..6].to_vec());
  let term = (select(vec!["body", "title"]), word.clone(), proptest::option::of(select(vec![0.5f64, 2.0, 3.0]))).prop_map(|(f, w, b)| {
    let mut v = json!({"type": "term", "field": f, "value": w});
    if let Some(b) = b {
      v["boost"] = json!(b);
    }
    v
  });
  prop_oneof![
    4 => term.clone(),
    2 => vec(word, 1..3).prop_map(|ws| json!({"type": "query_string", "query": ws.join(" ")})),
    2 => vec(term.clone(), 1..3).prop_map(|ts| json!({"type": "dis_max", "queries": ts, "tie_breaker": 0.3})),
    2 => (term.clone(), term.clone()).prop_map(|(a, b)| json!({"type": "bool", "must": [a], "should": [b]})),
    1 => term.prop_map(|t| json!({"type": "script_score", "query": t, "script": "_score * 0.5 + 0.25"})),
  ]
  .boxed()
}

fn combine(mode: &str, orig: f32, rs: f32) -> f32 {
  match mode {
    "multiply" => orig * rs,
    "max" => orig.max(rs),
    "min" => orig.min(rs),
    _ => orig + rs,
  }
}

impl Property for C19 {
  type Case = Case;
  const ID: &'static str = "C19";
  fn rule() -> String {
    "cases = corpus (10-80 docs, 1-4 segments), an initial scored query, a rescore query (term / query_string / dis_max / bool / script_score, optionally wrapped in function_score with min_score so that documents are dropped), window_size 0..limit+5, all five score modes, limit 1..15 and a candidate_size that usually covers the window; default score sort or (35%) a leading single-valued fast key (cat / rank, asc / desc) in front of _score desc - the window is then re-sorted within each run of equal leading values. Expected response = window survivors (first min(window,|R|) hits of the same request without rescore) with score combine(mode, orig, standalone rescore score) when they match the rescore query, unchanged when they do not, dropped when min_score rejects them, ordered by the new score, followed by the untouched tail, truncated to limit. Non-trivial = 0 < window < number of candidates and the rescoring changes the order; distinct = hash of the request and corpus size".into()
  }
  fn assumptions() -> Vec<String> {
    vec![
      "the rescore score of a document is read from a standalone bm25 search for the rescore query on the same reader (differential use of the engine); rescore queries are restricted to shapes whose matches always contain a scored term".into(),
      "cases whose window exceeds the guaranteed candidate pool (max(limit,candidate_size)+1) are only classified, not judged".into(),
    ]
  }
  fn plan(tier: Tier) -> Plan {
    Plan { workers: 16, cases_per_worker: tier.pick(1500, 100000) }
  }
  fn shrink_iters() -> u32 {
    800
  }
  fn strategy(_tier: Tier) -> BoxedStrategy<Case> {
    let schema = scoreworld::schema();
    let mut g = QGen::new(&schema, 6, false);
    g.phrases = false;
    let w = scoreworld::world(WorldOpts { min_docs: 10, max_docs: 80, max_commits: 4, deletes: true, ties: false, vocab: 6 });
    let query = prop_oneof![1 => Just(json!({"type": "match_all"})), 6 => g.tree(2)];
    (w, query, rescore_query(), proptest::option::weighted(0.35, select(vec![0.2f64, 0.5, 1.0, 2.0])), 0usize..20, select(vec!["total", "multiply", "sum", "max", "min"]), 1usize..15, proptest::option::weighted(0.7, 5usize..40), proptest::option::weighted(0.35, (select(vec!["cat", "rank"]), select(vec!["asc", "desc"]))))
      .prop_map(|(world, query, rescore_query, min_score, window, mode, limit, candidate_size, lead)| {
        let window = window.min(limit + 5);
        Case { world, query, rescore_query, min_score, window, mode: mode.to_string(), limit, candidate_size, lead: lead.map(|(f, o)| (f.to_string(), o.to_string())) }
      })
      .boxed()
  }
  fn run(case: &Case, ctx: &Ctx) -> Outcome {
    let mut out = Outcome::new();
    out.evals = 1;
    let built = match case.world.build("c19") {
      Ok(b) => b,
      Err(e) => {
        out.fail("corpus-build-failed", format!("{e:#}"));
        return out;
      }
    };
    let reader = match built.idx.reader() {
      Ok(r) => r,
      Err(e) => {
        out.fail("reader-open-failed", format!("{e:#}"));
        return out;
      }
    };
    let n = case.world.docs.len();
    let mut base = json!({"query": case.query, "limit": n + 5, "execution": "bm25"});
    if let Some((f, o)) = &case.lead {
      base["sort"] = json!([{"field": f, "order": o}, {"field": "_score", "order": "desc"}]);
      out.class("leading-sort-key");
    }
    let r = match sut::search(&reader, base.clone()) {
      Ok(r) => hits(&r),
      Err(_) => {
        out.class("request-rejected");
        return out;
      }
    };
    // with a leading sort key the ranking is grouped by its value (equal values are contiguous in the ranking
    // without rescore); the window is re-sorted group by group. Without one there is a single group.
    let mut group: BTreeMap<String, usize> = BTreeMap::new();
    if let Some((f, _)) = &case.lead {
      let value_of = |id: &str| built.live.iter().find(|l| l.0 == id).map(|l| l.1.get(f).cloned().unwrap_or(Value::Null)).unwrap_or(Value::Null);
      let mut g = 0usize;
      let mut prev: Option<Value> = None;
      for h in r.iter() {
        let v = value_of(&h.id);
        if let Some(p) = &prev {
          if *p != v {
            g += 1;
          }
        }
        prev = Some(v);
        group.insert(h.id.clone(), g);
      }
    }
    let by_plan = |a: &H, b: &H| group.get(&a.id).copied().unwrap_or(0).cmp(&group.get(&b.id).copied().unwrap_or(0)).then(b.score.partial_cmp(&a.score).unwrap_or(std::cmp::Ordering::Equal)).then_with(|| a.id.cmp(&b.id));
    let rq_inner = case.rescore_query.clone();
    let rq = match case.min_score {
      Some(m) => json!({"type": "function_score", "query": rq_inner, "functions": [], "min_score": m}),
      None => rq_inner.clone(),
    };
    // standalone rescore scores (without min_score: who matches; with: who survives)
    let standalone = |q: &Value| -> Result<BTreeMap<String, f32>, String> {
      sut::search(&reader, json!({"query": q, "limit": n + 5, "execution": "bm25"})).map(|r| r.hits.iter().map(|h| (h.doc_id.clone(), h.score)).collect()).map_err(|e| format!("{e:#}"))
    };
    let unfiltered = match standalone(&rq_inner) {
      Ok(m) => m,
      Err(e) => {
        out.fail("standalone-rescore-query-failed", e);
        return out;
      }
    };
    let survivors_map = match standalone(&rq) {
      Ok(m) => m,
      Err(e) => {
        out.fail("standalone-rescore-query-failed", e);
        return out;
      }
    };
    let mut req = base.clone();
    req["limit"] = json!(case.limit);
    if let Some(c) = case.candidate_size {
      req["candidate_size"] = json!(c);
    }
    req["rescore"] = json!({"window_size": case.window, "query": rq, "score_mode": case.mode});
    let got = match sut::search(&reader, req.clone()) {
      Ok(x) => hits(&x),
      Err(e) => {
        out.fail("rescore-request-failed", format!("{e:#}; request {req}"));
        return out;
      }
    };
    let min_pool = case.limit.max(case.candidate_size.unwrap_or(case.limit)).min(20_000) + 1;
    let w = case.window.min(r.len());
    if w > min_pool {
      out.class("window-beyond-guaranteed-pool");
      return out;
    }
    // the engine's pool may be cut at min_pool or later; everything we compare lies within limit <= min_pool - 1
    let mut window: Vec<H> = Vec::new();
    let mut dropped = 0usize;
    for h in r.iter().take(w) {
      if unfiltered.contains_key(&h.id) {
        match survivors_map.get(&h.id) {
          Some(rs) => window.push(H { id: h.id.clone(), score: combine(&case.mode, h.score, *rs) }),
          None => dropped += 1,
        }
      } else {
        window.push(h.clone());
      }
    }
    // by new score, ties by (segment, document) order == id order in this corpus
    window.sort_by(by_plan);
    // Expected: the sorted survivors, then the untouched tail. Beyond the guaranteed pool
    // (the first min_pool hits of R) the engine may or may not hold further candidates, so the tail
    // is judged as: first the guaranteed tail R[w..min_pool] in order, then any in-order selection
    // of R[min_pool..], every hit with its original score.
    let s_len = window.len().min(case.limit);
    let guaranteed_tail: Vec<H> = r.iter().skip(w).take(min_pool.saturating_sub(w)).cloned().collect();
    let mut expected: Vec<H> = window.clone();
    expected.extend(guaranteed_tail.iter().cloned());
    expected.truncate(case.limit);
    let max_len = (window.len() + r.len().saturating_sub(w)).min(case.limit);
    let mut problem: Option<String> = None;
    if got.len() < expected.len() || got.len() > max_len {
      problem = Some(format!("{} hits, expected between {} and {}", got.len(), expected.len(), max_len));
    } else {
      for i in 0..expected.len() {
        let (g, e) = (&got[i], &expected[i]);
        if !close(g.score, e.score) {
          problem = Some(format!("position {i}: score {} ({}) expected {} ({})", g.score, g.id, e.score, e.id));
          break;
        }
        if g.id != e.id {
          // a permutation among (near-)equal scores inside the same region is fine
          let region: &[H] = if i < s_len { &window } else { &r[w.min(r.len())..] };
          if !region.iter().any(|x| x.id == g.id && close(x.score, g.score)) {
            problem = Some(format!("position {i}: doc {} (score {}) expected {} (score {})", g.id, g.score, e.id, e.score));
            break;
          }
        }
      }
      if problem.is_none() {
        // optional extra tail beyond the guaranteed pool: in ranking order, original scores
        let mut last_pos = 0usize;
        for g in got.iter().skip(expected.len()) {
          match r.iter().position(|x| x.id == g.id) {
            Some(p) if p >= w && close(r[p].score, g.score) && (p >= last_pos || close(r[p].score, r[last_pos].score)) => last_pos = p,
            _ => {
              problem = Some(format!("hit {} (score {}) behind the window is not an untouched hit of the initial ranking in order", g.id, g.score));
              break;
            }
          }
        }
      }
    }
    if let Some(p) = problem {
      let detail = format!("{p}; request {req}; got {:?}; expected {:?}; without rescore {:?}; window {w}, dropped by min_score {dropped}", got, expected, r.iter().take(case.limit + 6).collect::<Vec<_>>());
      if dropped > 0 {
        // is it exactly the listed defect? re-derive what the engine does: sort the first `window` of the shortened list
        let mut engine: Vec<H> = window.clone();
        engine.extend(r.iter().skip(w).cloned());
        let k = case.window.min(engine.len());
        engine[..k].sort_by(by_plan);
        engine.truncate(case.limit);
        let same = engine.len() == got.len() && engine.iter().zip(got.iter()).all(|(a, b)| close(a.score, b.score));
        if same {
          out.fail(SIG_TAIL, detail);
          if ctx.is_known(Self::ID, SIG_TAIL) {
            out.excluded_known += 1;
          }
          return out;
        }
      }
      out.fail("rescore-result-wrong", detail);
      return out;
    }
    if dropped > 0 {
      out.class("dropped-by-min-score");
    }
    let order_changed = window.iter().map(|h| &h.id).ne(r.iter().take(w).filter(|h| window.iter().any(|x| x.id == h.id)).map(|h| &h.id));
    if w > 0 && w < r.len().min(min_pool) && order_changed {
      out.nontrivial(fingerprint_json(&(&req, n)));
    }
    out
  }
}
