//! C09 — pruned top-k (wand / bmw) equals exhaustive top-k (bm25): differential on one reader.
use proptest::collection::vec;
use proptest::prelude::*;
use proptest::sample::select;
use serde::{Deserialize, Serialize};
use serde_json::{json, Value};

use crate::engine::{fingerprint_json, Ctx, Outcome, Plan, Property, Tier};
use crate::props::c08;
use crate::qgen::QGen;
use crate::rank::{self, hits};
use crate::scoreworld::{self, World, WorldOpts};
use crate::sut;

#[derive(Clone, Debug, Serialize, Deserialize)]
pub struct Q {
  pub query: Value,
  pub limit: usize,
  pub filter: Option<Value>,
  pub strategy: String,
  pub block_size: Option<usize>,
}

#[derive(Clone, Debug, Serialize, Deserialize)]
pub struct Case {
  pub world: World,
  pub queries: Vec<Q>,
}

pub struct C09;

pub const SIG_HOOKS: &str = "pruning-ignores-custom-score-adjustment";

fn has_type(q: &Value, tys: &[&str]) -> bool {
  match q {
    Value::Object(m) => m.get("type").and_then(|t| t.as_str()).map(|t| tys.contains(&t)).unwrap_or(false) || m.values().any(|v| has_type(v, tys)),
    Value::Array(a) => a.iter().any(|v| has_type(v, tys)),
    _ => false,
  }
}

fn has_key(q: &Value, key: &str) -> bool {
  match q {
    Value::Object(m) => m.contains_key(key) || m.values().any(|v| has_key(v, key)),
    Value::Array(a) => a.iter().any(|v| has_key(v, key)),
    _ => false,
  }
}

pub fn queries(n: usize) -> BoxedStrategy<Vec<Q>> {
  let schema = scoreworld::schema();
  let mut g = QGen::new(&schema, 15, false);
  g.phrases = true;
  g.min_score = true;
  let filt = c08::root_filter(&schema, 1);
  // some trees are wrapped in a root function_score with min_score: the score adjustment then rejects documents
  let tree = (g.tree(2), proptest::option::weighted(0.15, select(vec![0.23f64, 0.57, 1.09, 2.03, 3.37]))).prop_map(|(q, m)| match m {
    Some(m) => json!({"type": "function_score", "query": q, "functions": [{"type": "weight", "weight": 1.0}], "min_score": m}),
    None => q,
  });
  let q = (tree, prop_oneof![1 => 1usize..4, 3 => 1usize..50], proptest::option::weighted(0.25, filt), select(vec!["wand", "bmw", "bmw"]), proptest::option::of(prop_oneof![2 => 1usize..8, 2 => 1usize..300, 1 => Just(128usize)]))
    .prop_map(|(query, limit, filter, strategy, block_size)| Q { query, limit, filter, strategy: strategy.to_string(), block_size });
  vec(q, n).boxed()
}

/// Queries on one given word with small limits and the stored block size (None / 128) or another one.
fn spike_queries(word: &'static str) -> BoxedStrategy<Vec<Q>> {
  let other = select(scoreworld::VOCAB.to_vec());
  let q = (0u8..3, other, 1usize..4, select(vec!["bmw", "bmw", "bmw", "wand"]), select(vec![None, None, Some(128usize), Some(128), Some(64), Some(127)])).prop_map(move |(shape, o, limit, strategy, block_size)| {
    let t = json!({"type": "term", "field": "body", "value": word});
    let query = match shape {
      0 => t,
      1 => json!({"type": "bool", "must": [], "should": [t, {"type": "term", "field": "body", "value": o}], "must_not": [], "filter": []}),
      _ => json!({"type": "bool", "must": [t], "should": [{"type": "term", "field": "title", "value": o}], "must_not": [], "filter": []}),
    };
    Q { query, limit, filter: None, strategy: strategy.to_string(), block_size }
  });
  vec(q, 8).boxed()
}

/// Block-boundary corpus: every document gets a body of exactly LEN (8) tokens containing `word` once (so its posting index
/// equals the document ordinal of the segment and length normalisation is the same for all), a few documents anywhere
/// carry it 2-4 times, and documents at / next to the last position of each 128-posting block carry it 4-8 times: the
/// stored per-block maxima then decide whether bmw may skip a block.
fn spiked(mut w: World, word: &str, ends: &[(u8, u8)], anywhere: &[(u16, u8)]) -> World {
  const LEN: usize = 8;
  let n = w.docs.len();
  let others: Vec<&str> = scoreworld::VOCAB.iter().copied().filter(|v| *v != word).collect();
  let body_with = |d: &serde_json::Map<String, Value>, i: usize, tf: usize| -> Value {
    let own: Vec<String> = d.get("body").and_then(|b| b.as_str()).unwrap_or("").split_whitespace().filter(|t| *t != word).map(|t| t.to_string()).collect();
    let mut toks: Vec<String> = vec![word.to_string(); tf.min(LEN)];
    let mut k = 0usize;
    while toks.len() < LEN {
      toks.push(if own.is_empty() { others[(i + k) % others.len()].to_string() } else { own[k % own.len()].clone() });
      k += 1;
    }
    // the word is not always at the front
    toks.rotate_left(i % LEN);
    json!(toks.join(" "))
  };
  for i in 0..n {
    let b = body_with(&w.docs[i], i, 1);
    w.docs[i].insert("body".into(), b);
  }
  for (pos, tf) in anywhere {
    if n > 0 {
      let i = (*pos as usize * n) >> 16;
      let b = body_with(&w.docs[i], i, 2 + (*tf as usize % 3));
      w.docs[i].insert("body".into(), b);
    }
  }
  let mut start = 0usize;
  let mut k = 0usize;
  for c in w.commits.clone() {
    let mut end_of_block = 127usize;
    while end_of_block < c {
      if !ends.is_empty() {
        let (delta, tf) = ends[k % ends.len()];
        k += 1;
        // delta: 0,1 -> the closing posting itself; 2 -> one before; 3 -> one after (first of the next block)
        let at = match delta % 4 {
          2 => end_of_block.saturating_sub(1),
          3 => (end_of_block + 1).min(c - 1),
          _ => end_of_block,
        };
        let b = body_with(&w.docs[start + at], start + at, 4 + (tf as usize % 5));
        w.docs[start + at].insert("body".into(), b);
      }
      end_of_block += 128;
    }
    start += c;
  }
  w
}

fn map_min_score(v: &Value, factor: f64) -> Value {
  match v {
    Value::Object(m) => Value::Object(m.iter().map(|(k, x)| if k == "min_score" && x.is_number() { (k.clone(), json!(x.as_f64().unwrap_or(0.0) * factor)) } else { (k.clone(), map_min_score(x, factor)) }).collect()),
    Value::Array(a) => Value::Array(a.iter().map(|x| map_min_score(x, factor)).collect()),
    other => other.clone(),
  }
}

impl Property for C09 {
  type Case = Case;
  const ID: &'static str = "C09";
  fn rule() -> String {
    "cases = (5 in 7) a corpus of 30-2500 short documents over a 15-word vocabulary (long posting lists) in 1-3 segments with optional deletions and one of four (k1,b) settings, and 12 scored query trees (terms, bool, dis_max+tie_breaker, boosts incl. 0, multi_match, prefix/wildcard/regex, function_score incl. min_score (also as a root wrapper, 15%), script_score, rank_feature, constant_score, phrases) each with limit 1..50 (a quarter 1..3), optional filter, execution wand|bmw and bmw_block_size 1..300 / 128 / default; (2 in 7) a block-boundary corpus of 200-800 documents of equal length in which one word occurs in every document (posting index = document ordinal), a few documents anywhere carry it 2-4 times and the documents at / next to the last position of each 128-posting block carry it 4-8 times, with 4 generated trees plus 8 term / bool queries on that word with limit 1..3, bmw (default, 128, 64, 127) or wand; the pruned response is compared with execution=bm25 on the same reader: same length, position-wise scores, per-id scores, membership differing only among hits tied with the k-th score; total_hits_estimate(pruned) <= total_hits_estimate(bm25); a difference on a query with min_score only counts when it persists with the thresholds moved by +-0.1% (a score on the threshold may be summed in a different order). Non-trivial = more matches than the limit, >=2 scored terms and a posting list longer than the block size; distinct = hash of (query, limit, strategy, block, corpus size)".into()
  }
  fn assumptions() -> Vec<String> {
    vec!["scores are compared with relative tolerance 1e-5 (f32 sums are accumulated in different orders by the strategies)".into()]
  }
  fn plan(tier: Tier) -> Plan {
    Plan { workers: 16, cases_per_worker: tier.pick(150, 4000) }
  }
  fn shrink_iters() -> u32 {
    400
  }
  fn strategy(tier: Tier) -> BoxedStrategy<Case> {
    let small = WorldOpts { min_docs: 30, max_docs: 300, max_commits: 3, deletes: true, ties: false, vocab: 15 };
    let large = WorldOpts { min_docs: 600, max_docs: tier.pick(1500, 2500), max_commits: 3, deletes: true, ties: false, vocab: 15 };
    let w = prop_oneof![5 => scoreworld::world(small), 1 => scoreworld::world(large)];
    let plain = (w, queries(12)).prop_map(|(world, queries)| Case { world, queries });
    // block-boundary corpora: one word in every document, high-tf documents at the ends of the 128-posting blocks
    let mid = WorldOpts { min_docs: 200, max_docs: 800, max_commits: 2, deletes: true, ties: false, vocab: 15 };
    let spiky = select(vec!["the", "rust", "fox"]).prop_flat_map(move |word| {
      (scoreworld::world(mid), vec((0u8..4, 0u8..5), 2..6), vec((any::<u16>(), 0u8..6), 0..12), queries(4), spike_queries(word)).prop_map(move |(world, ends, anywhere, mut queries, extra)| {
        queries.extend(extra);
        Case { world: spiked(world, word, &ends, &anywhere), queries }
      })
    });
    prop_oneof![5 => plain, 2 => spiky].boxed()
  }
  fn run(case: &Case, ctx: &Ctx) -> Outcome {
    let mut out = Outcome::new();
    let built = match case.world.build("c09") {
      Ok(b) => b,
      Err(e) => {
        out.fail("corpus-build-failed", format!("{e:#}"));
        return out;
      }
    };
    let reader = match built.idx.reader() {
      Ok(r) => r,
      Err(e) => {
        out.fail("reader-open-failed", format!("{e:#}"));
        return out;
      }
    };
    let known_hooks = ctx.is_known(Self::ID, SIG_HOOKS);
    for q in case.queries.iter() {
      out.evals += 1;
      let mut base = json!({"query": q.query, "limit": q.limit});
      if let Some(f) = &q.filter {
        base["filter"] = f.clone();
      }
      let mut exhaustive = base.clone();
      exhaustive["execution"] = json!("bm25");
      let mut pruned = base.clone();
      pruned["execution"] = json!(q.strategy);
      if let Some(b) = q.block_size {
        pruned["bmw_block_size"] = json!(b);
      }
      let re = match sut::search(&reader, exhaustive.clone()) {
        Ok(r) => r,
        Err(e) => {
          out.fail("search-error", format!("bm25 execution failed: {e:#}; request {exhaustive}"));
          return out;
        }
      };
      let rp = match sut::search(&reader, pruned.clone()) {
        Ok(r) => r,
        Err(e) => {
          out.fail("search-error", format!("{} execution failed although bm25 succeeded: {e:#}; request {pruned}", q.strategy));
          return out;
        }
      };
      let (he, hp) = (hits(&re), hits(&rp));
      let custom = has_type(&q.query, &["function_score", "script_score", "rank_feature", "constant_score"]);
      if custom {
        out.class("custom-scoring");
      }
      if has_key(&q.query, "min_score") {
        out.class("min-score");
      }
      let mut problem = rank::same_top_k(&hp, &he).err();
      if problem.is_none() && rp.total_hits_estimate > re.total_hits_estimate {
        problem = Some(format!("total_hits_estimate {} under {} exceeds {} under bm25", rp.total_hits_estimate, q.strategy, re.total_hits_estimate));
      }
      // a document whose score sits on a min_score threshold may be kept by one strategy and dropped by the other
      // (f32 sums in different orders): a difference only counts when it persists with the thresholds moved both ways
      if problem.is_some() && has_key(&q.query, "min_score") {
        let mut persists = true;
        for factor in [1.001f64, 0.999] {
          let (mut e2, mut p2) = (exhaustive.clone(), pruned.clone());
          e2["query"] = map_min_score(&q.query, factor);
          p2["query"] = map_min_score(&q.query, factor);
          match (sut::search(&reader, e2), sut::search(&reader, p2)) {
            (Ok(a), Ok(b)) => {
              if rank::same_top_k(&hits(&b), &hits(&a)).is_ok() && b.total_hits_estimate <= a.total_hits_estimate {
                persists = false;
              }
            }
            _ => {}
          }
        }
        if !persists {
          out.class("min-score-threshold-tie");
          problem = None;
        }
      }
      if let Some(p) = problem {
        let detail = format!("{} vs bm25: {p}; request {pruned}; pruned {:?}; exhaustive {:?}", q.strategy, hp.iter().take(8).collect::<Vec<_>>(), he.iter().take(8).collect::<Vec<_>>());
        if custom {
          out.fail(SIG_HOOKS, detail);
          if known_hooks {
            out.excluded_known += 1;
            continue;
          }
        } else {
          out.fail("pruned-differs-from-exhaustive", detail);
        }
        return out;
      }
      let matches = re.total_hits_estimate as usize;
      if matches > q.limit {
        out.class("more-matches-than-limit");
        let block = q.block_size.unwrap_or(128);
        if case.world.docs.len() > block {
          out.nontrivial(fingerprint_json(&(&q.query, q.limit, &q.strategy, q.block_size, case.world.docs.len())));
        }
      }
    }
    out
  }
}
