//! C28 — a copied (or moved) index directory is self-contained.
use std::collections::BTreeMap;
use std::path::Path;

use proptest::collection::vec;
use proptest::prelude::*;
use proptest::sample::select;
use serde::{Deserialize, Serialize};
use serde_json::{json, Map, Value};

use crate::engine::{fingerprint_json, Ctx, Outcome, Plan, Property, Tier};
use crate::model::{normal, stored_projection, Contents};
use crate::scoreworld::{self, World, WorldOpts};
use crate::sut::{self, Scratch, StorageKind};

#[derive(Clone, Debug, Serialize, Deserialize)]
pub enum Fate {
  /// the original stays as it is
  Kept,
  /// the original is removed after the copy was taken (a restore from backup)
  Deleted,
  /// the original goes on: another commit and a compaction
  Diverged,
  /// no copy at all: the directory is renamed
  Moved,
}

#[derive(Clone, Debug, Serialize, Deserialize)]
pub enum CopyOp {
  Search,
  Add(usize, Map<String, Value>),
  Delete(usize),
  Commit,
  Compact,
  Reopen,
}

#[derive(Clone, Debug, Serialize, Deserialize)]
pub struct Case {
  pub world: World,
  /// uncommitted operation left in the original's wal.log at copy time
  pub pending_add: bool,
  pub fate: Fate,
  pub ops: Vec<CopyOp>,
  /// how the two directory names relate (names that are textual prefixes of each other, nesting)
  #[serde(default)]
  pub naming: u8,
  /// a live `Index` handle on the original stays open in this process while the copy is opened and driven
  #[serde(default)]
  pub hold_original: bool,
}

pub struct C28;

fn listing(root: &Path) -> BTreeMap<String, Vec<u8>> {
  let mut out = BTreeMap::new();
  fn walk(base: &Path, dir: &Path, out: &mut BTreeMap<String, Vec<u8>>) {
    if let Ok(rd) = std::fs::read_dir(dir) {
      for e in rd.flatten() {
        let p = e.path();
        if p.is_dir() {
          walk(base, &p, out);
        } else {
          let rel = p.strip_prefix(base).unwrap_or(&p).display().to_string();
          out.insert(rel, std::fs::read(&p).unwrap_or_default());
        }
      }
    }
  }
  walk(root, root, &mut out);
  out
}

fn copy_dir(from: &Path, to: &Path) -> std::io::Result<()> {
  std::fs::create_dir_all(to)?;
  for e in std::fs::read_dir(from)? {
    let e = e?;
    let dest = to.join(e.file_name());
    if e.path().is_dir() {
      copy_dir(&e.path(), &dest)?;
    } else {
      std::fs::copy(e.path(), dest)?;
    }
  }
  Ok(())
}

fn battery(reader: &searchlite_core::api::IndexReader, n: usize) -> anyhow::Result<Value> {
  let mut out = Vec::new();
  let reqs = [
    json!({"query": {"type": "match_all"}, "limit": n + 10, "return_stored": true, "execution": "bm25"}),
    json!({"query": {"type": "query_string", "query": "rust search fox the"}, "limit": n + 10, "execution": "bm25"}),
    json!({"query": {"type": "match_all"}, "filter": {"KeywordIn": {"field": "tag", "values": ["red", "green", "x"]}}, "sort": [{"field": "price", "order": "desc"}, {"field": "cat"}], "limit": n + 10, "execution": "bm25", "aggs": {"t": {"type": "terms", "field": "cat"}}}),
  ];
  for r in reqs.iter() {
    let res = sut::search(reader, r.clone())?;
    let hits: Vec<Value> = res.hits.iter().map(|h| json!({"id": h.doc_id, "score": h.score, "fields": h.fields.as_ref().and_then(normal)})).collect();
    out.push(json!({"hits": hits, "total": res.total_hits_estimate, "aggs": serde_json::to_value(&res.aggregations)?}));
  }
  Ok(Value::Array(out))
}

fn open(root: &Path, k1: f32, b: f32) -> anyhow::Result<searchlite_core::api::Index> {
  let storage = sut::make_storage(root, StorageKind::Fs);
  searchlite_core::api::Index::open_with_storage(sut::index_options(root, true, StorageKind::Fs, k1, b), storage)
}

fn check_contents(idx: &searchlite_core::api::Index, model: &Contents, out: &mut Outcome, at: &str) -> bool {
  out.evals += 1;
  let schema = scoreworld::schema();
  let reader = match idx.reader() {
    Ok(r) => r,
    Err(e) => {
      out.fail("copy-reader-failed", format!("{at}: reader() on the copy failed: {e:#}"));
      return false;
    }
  };
  let (got, _) = match sut::contents(&reader, model.len() + 50) {
    Ok(x) => x,
    Err(e) => {
      out.fail("copy-search-failed", format!("{at}: match_all on the copy failed: {e:#}"));
      return false;
    }
  };
  let got: BTreeMap<String, Option<Value>> = got.iter().map(|(k, v)| (k.clone(), normal(v))).collect();
  let want: BTreeMap<String, Option<Value>> = model.iter().map(|(k, d)| (k.clone(), normal(&stored_projection(&schema, d)))).collect();
  if got != want {
    out.fail("copy-contents-wrong", format!("{at}: the copy holds ids {:?}, expected {:?} (or stored fields differ)", got.keys().collect::<Vec<_>>(), want.keys().collect::<Vec<_>>()));
    return false;
  }
  true
}

impl Property for C28 {
  type Case = Case;
  const ID: &'static str = "C28";
  fn rule() -> String {
    "cases = a committed filesystem index (4-30 documents, 1-3 segments, deletions, optionally a queued document in wal.log), copied file by file to another path (or renamed); the original is then kept, deleted, or goes on with its own commit + compaction; the copy is opened at its new path (in half of the cases while a live handle on the surviving original stays open in the same process) and driven with a generated sequence of search / add / delete / commit / compact / reopen. Oracle: (1) the copy opens and its battery of searches equals the original's battery at copy time; (2) the store model continues on the copy: contents after every commit / compaction / reopen equal the model; (3) a byte-for-byte listing of the original directory is unchanged by anything done through the copy (fate Kept), resp. the copy is unaffected by what happens to the original. Non-trivial = the original was deleted, moved or diverged before the copy is used and the copy performed a commit or a compaction; distinct = hash of the case".into()
  }
  fn assumptions() -> Vec<String> {
    vec!["the copy is taken while no writer is open (as the README's backup advice implies); a queued, synced operation in wal.log belongs to the copy as well".into()]
  }
  fn plan(tier: Tier) -> Plan {
    Plan { workers: 16, cases_per_worker: tier.pick(150, 16000) }
  }
  fn shrink_iters() -> u32 {
    600
  }
  fn strategy(_tier: Tier) -> BoxedStrategy<Case> {
    let world = scoreworld::world(WorldOpts { min_docs: 4, max_docs: 30, max_commits: 3, deletes: true, ties: true, vocab: 10 });
    let body = select(vec![json!({"body": "rust fox", "tag": "red", "year": 2}), json!({"body": "new search engine", "title": "rust", "cat": "blue", "price": 1.5, "rank": 7}), json!({"body": ""})]).prop_map(|v| v.as_object().cloned().unwrap());
    let op = prop_oneof![
      2 => Just(CopyOp::Search),
      4 => (0usize..40, body).prop_map(|(i, b)| CopyOp::Add(i, b)),
      2 => (0usize..40).prop_map(CopyOp::Delete),
      3 => Just(CopyOp::Commit),
      2 => Just(CopyOp::Compact),
      1 => Just(CopyOp::Reopen),
    ];
    (world, any::<bool>(), prop_oneof![2 => Just(Fate::Kept), 3 => Just(Fate::Deleted), 2 => Just(Fate::Diverged), 1 => Just(Fate::Moved)], vec(op, 0..10), 0u8..6, any::<bool>())
      .prop_map(|(world, pending_add, fate, ops, naming, hold_original)| Case { world, pending_add, fate, ops, naming, hold_original })
      .boxed()
  }
  fn run(case: &Case, _ctx: &Ctx) -> Outcome {
    let mut out = Outcome::new();
    let scratch = Scratch::new("c28");
    // unrelated names, names that are textual prefixes of one another, a copy nested next to / below the original's parent
    let (o, c) = match case.naming % 6 {
      0 => ("original", "backup/copy"),
      1 => ("idx.bak", "idx"),
      2 => ("idx", "idx.bak"),
      3 => ("data/index2", "data/index"),
      4 => ("store/idx", "store/./restored"),
      _ => ("a/b/idx", "a/idx"),
    };
    let orig = scratch.sub(o);
    let copy = scratch.sub(c);
    out.class(format!("naming:{}", case.naming % 6));
    let (k1, b) = (case.world.k1, case.world.b);
    let n = case.world.docs.len() + 12;
    let mut model = Contents::new();
    let mut queue: Vec<(String, Option<Value>)> = Vec::new();
    // build the original
    let built: anyhow::Result<Value> = (|| {
      let storage = sut::make_storage(&orig, StorageKind::Fs);
      let idx = sut::create_index(&orig, &scoreworld::schema(), sut::index_options(&orig, true, StorageKind::Fs, k1, b), storage)?;
      let mut w = idx.writer()?;
      let mut next = 0usize;
      for c in case.world.commits.iter() {
        for _ in 0..*c {
          let d = case.world.doc_json(next);
          w.add_document(&sut::document(&d))?;
          model.insert(format!("d{next:05}"), d);
          next += 1;
        }
        w.commit()?;
      }
      if !case.world.deletes.is_empty() {
        let ids: Vec<String> = case.world.deletes.iter().map(|i| format!("d{i:05}")).collect();
        w.delete_documents(&ids)?;
        w.commit()?;
        for id in ids {
          model.remove(&id);
        }
      }
      if case.pending_add {
        let d = json!({"_id": "queued", "body": "queued rust document", "tag": "x"});
        w.add_document(&sut::document(&d))?;
        queue.push(("queued".into(), Some(d)));
      }
      drop(w);
      let r = idx.reader()?;
      battery(&r, n)
    })();
    let baseline = match built {
      Ok(b) => b,
      Err(e) => {
        out.evals = 1;
        out.fail("original-build-failed", format!("{e:#}"));
        return out;
      }
    };
    // copy / move
    let copied = match case.fate {
      Fate::Moved => std::fs::create_dir_all(copy.parent().unwrap()).and_then(|_| std::fs::rename(&orig, &copy)),
      _ => copy_dir(&orig, &copy),
    };
    if let Err(e) = copied {
      out.evals = 1;
      out.fail("harness-copy-failed", format!("{e}"));
      return out;
    }
    out.class(format!("fate:{:?}", case.fate));
    match case.fate {
      Fate::Deleted => {
        let _ = std::fs::remove_dir_all(&orig);
      }
      Fate::Diverged => {
        let r: anyhow::Result<()> = (|| {
          let idx = open(&orig, k1, b)?;
          let mut w = idx.writer()?;
          w.add_document(&sut::document(&json!({"_id": "only-in-original", "body": "diverged"})))?;
          w.delete_documents(&["d00000".to_string()])?;
          w.commit()?;
          drop(w);
          idx.compact()?;
          Ok(())
        })();
        if let Err(e) = r {
          out.evals = 1;
          out.fail("original-diverge-failed", format!("{e:#}"));
          return out;
        }
      }
      _ => {}
    }
    let orig_before = if matches!(case.fate, Fate::Kept | Fate::Diverged) { Some(listing(&orig)) } else { None };
    // an application may have both directories open: a live handle on the original (when it still exists) must not
    // make the copy anything but an index of its own
    let _held_original = if case.hold_original && matches!(case.fate, Fate::Kept | Fate::Diverged) {
      out.class("original-handle-held-open");
      open(&orig, k1, b).ok()
    } else {
      None
    };
    // (1) open the copy and compare with the original at copy time
    out.evals += 1;
    let mut idx = match open(&copy, k1, b) {
      Ok(i) => i,
      Err(e) => {
        out.fail("copy-open-failed", format!("Index::open at the new path failed: {e:#}"));
        return out;
      }
    };
    match idx.reader().and_then(|r| battery(&r, n)) {
      Ok(got) => {
        if got != baseline {
          out.fail("copy-results-differ", format!("the copy answers differently from the original at copy time: {} vs {}", crate::engine::truncate_value(got, 500), crate::engine::truncate_value(baseline.clone(), 500)));
          return out;
        }
      }
      Err(e) => {
        out.fail("copy-search-failed", format!("reader/search on the copy failed (original {:?}): {e:#}", case.fate));
        return out;
      }
    }
    // (2) drive the copy
    let mut wrote = false;
    let mut writer: Option<searchlite_core::api::IndexWriter> = None;
    for (step, op) in case.ops.iter().enumerate() {
      let r: anyhow::Result<()> = (|| {
        match op {
          CopyOp::Search => {
            let r = idx.reader()?;
            battery(&r, n)?;
          }
          CopyOp::Add(i, body) => {
            if writer.is_none() {
              writer = Some(idx.writer()?);
            }
            let id = format!("d{:05}", i % (case.world.docs.len() + 3));
            let mut m = body.clone();
            m.insert("_id".into(), json!(id));
            let d = Value::Object(m);
            writer.as_mut().unwrap().add_document(&sut::document(&d))?;
            queue.push((id, Some(d)));
          }
          CopyOp::Delete(i) => {
            if writer.is_none() {
              writer = Some(idx.writer()?);
            }
            let id = format!("d{:05}", i % (case.world.docs.len() + 3));
            writer.as_mut().unwrap().delete_documents(&[id.clone()])?;
            queue.push((id, None));
          }
          CopyOp::Commit => {
            if writer.is_none() {
              writer = Some(idx.writer()?);
            }
            writer.as_mut().unwrap().commit()?;
            for (id, d) in queue.drain(..) {
              match d {
                Some(d) => {
                  model.insert(id, d);
                }
                None => {
                  model.remove(&id);
                }
              }
            }
            wrote = true;
          }
          CopyOp::Compact => {
            idx.compact()?;
            wrote = true;
          }
          CopyOp::Reopen => {
            writer = None; // dropping syncs the log; queued operations stay queued
            idx = open(&copy, k1, b)?;
          }
        }
        Ok(())
      })();
      if let Err(e) = r {
        out.fail("copy-operation-failed", format!("step {step} {op:?} on the copy failed (original {:?}): {e:#}", case.fate));
        return out;
      }
      if matches!(op, CopyOp::Commit | CopyOp::Compact | CopyOp::Reopen) && !check_contents(&idx, &model, &mut out, &format!("after step {step} {op:?}")) {
        return out;
      }
    }
    drop(writer);
    if !check_contents(&idx, &model, &mut out, "at the end") {
      return out;
    }
    match open(&copy, k1, b) {
      Ok(i) => {
        if !check_contents(&i, &model, &mut out, "after a final reopen of the copy") {
          return out;
        }
      }
      Err(e) => {
        out.fail("copy-open-failed", format!("final Index::open of the copy failed: {e:#}"));
        return out;
      }
    }
    // (3) the original is untouched
    if let Some(before) = orig_before {
      out.evals += 1;
      let after = listing(&orig);
      if after != before {
        let gone: Vec<&String> = before.keys().filter(|k| !after.contains_key(*k)).collect();
        let new: Vec<&String> = after.keys().filter(|k| !before.contains_key(*k)).collect();
        let changed: Vec<&String> = before.keys().filter(|k| after.get(*k).map(|v| v != &before[*k]).unwrap_or(false)).collect();
        out.fail("original-modified-through-the-copy", format!("files under the original path changed by operations on the copy: removed {gone:?}, created {new:?}, rewritten {changed:?}; ops {:?}", case.ops));
        return out;
      }
      // and it still opens and answers
      if let Err(e) = open(&orig, k1, b).and_then(|i| i.reader()).and_then(|r| battery(&r, n)) {
        out.fail("original-broken-through-the-copy", format!("the original no longer opens/searches: {e:#}"));
        return out;
      }
    }
    if wrote && !matches!(case.fate, Fate::Kept) {
      out.nontrivial(fingerprint_json(case));
    }
    out
  }
}
