//! C30 — composite aggregation paging is complete (pages == unpaged, after_key absent exactly on the last page).
use std::collections::BTreeSet;

use proptest::collection::vec;
use proptest::prelude::*;
use proptest::sample::select;
use serde::{Deserialize, Serialize};
use serde_json::{json, Map, Value};

use crate::engine::{fingerprint_json, Ctx, Outcome, Plan, Property, Tier};
use crate::gen::{KwSpec, NumSpec, SchemaSpec, TextSpec};
use crate::props::c13::json_close;
use crate::sut::{self, StorageKind};

#[derive(Clone, Debug, Serialize, Deserialize)]
pub struct Case {
  pub docs: Vec<Map<String, Value>>,
  /// commit sizes (normalised against docs.len())
  pub commits: Vec<usize>,
  pub deletes: Vec<usize>,
  pub sources: Vec<Value>,
  pub size: usize,
  /// how the client hands after_key back: as the in-memory value, or through JSON text
  /// (what an HTTP / CLI / FFI client does; the whole request is then serialised and parsed)
  pub text_roundtrip: bool,
  pub sub: Option<Value>,
  pub filter: Option<Value>,
}

pub struct C30;

pub fn schema() -> SchemaSpec {
  let t = |name: &str| TextSpec { name: name.into(), analyzer: "default".into(), search_analyzer: None, stored: true, indexed: true, nullable: false, saty: None };
  let k = |name: &str| KwSpec { name: name.into(), stored: true, indexed: true, fast: true, nullable: false };
  let n = |name: &str, i: bool| NumSpec { name: name.into(), i64: i, fast: true, stored: true, nullable: false };
  SchemaSpec { doc_id_field: "_id".into(), analyzers: vec![], text: vec![t("body")], keyword: vec![k("tag"), k("cat")], numeric: vec![n("price", false), n("ratio", false), n("year", true)], nested: vec![] }
}

const TAGS: &[&str] = &["red", "green", "blue", "Red", "x", "y", "é", "two words", ""];

fn f64_val() -> BoxedStrategy<f64> {
  prop_oneof![
    4 => (-30i32..60).prop_map(|k| k as f64 * 0.1),
    3 => (-20i32..40).prop_map(|k| k as f64 / 7.0),
    3 => any::<i32>().prop_map(|k| k as f64 / 1000.0),
    2 => (0i32..12).prop_map(|k| k as f64 * 0.5),
    1 => (1u64..(1u64 << 52)).prop_map(|m| f64::from_bits(0x3ff0_0000_0000_0000 | m) * 3.0 - 4.0),
    1 => select(vec![0.0f64, -0.0, 1e-7, 123456789.123, -98765.4321, 1e15 + 0.5, 5e-324, 0.30000000000000004]),
  ]
  .boxed()
}

fn doc() -> BoxedStrategy<Map<String, Value>> {
  let tag = prop_oneof![6 => select(TAGS.to_vec()).prop_map(|s| json!(s)), 2 => vec(select(TAGS.to_vec()), 0..3).prop_map(|v| json!(v)), 1 => Just(Value::Null)];
  let cat = prop_oneof![8 => select(TAGS[..4].to_vec()).prop_map(|s| json!(s)), 1 => Just(Value::Null)];
  let price = prop_oneof![7 => f64_val().prop_map(|v| json!(v)), 2 => vec(f64_val(), 0..3).prop_map(|v| json!(v)), 1 => Just(Value::Null)];
  let ratio = prop_oneof![8 => f64_val().prop_map(|v| json!(v)), 1 => Just(Value::Null)];
  let year = prop_oneof![8 => (-3i64..9).prop_map(|v| json!(v)), 1 => Just(Value::Null)];
  (tag, cat, price, ratio, year, select(vec!["fox", "dog", "fox dog"]))
    .prop_map(|(tag, cat, price, ratio, year, body)| {
      let mut m = Map::new();
      m.insert("body".into(), json!(body));
      for (k, v) in [("tag", tag), ("cat", cat), ("price", price), ("ratio", ratio), ("year", year)] {
        if !v.is_null() {
          m.insert(k.into(), v);
        }
      }
      m
    })
    .boxed()
}

fn source(i: usize) -> BoxedStrategy<Value> {
  let name = format!("s{i}");
  let n2 = name.clone();
  prop_oneof![
    3 => select(vec!["tag", "cat"]).prop_map(move |f| json!({"type": "terms", "name": name.clone(), "field": f})),
    5 => (select(vec!["price", "price", "ratio", "ratio", "year"]), select(vec![0.1f64, 0.25, 0.3, 1.0, 2.5, 0.7, 1e-3, 3.3333333333333335, 1e-9, 1000.0]))
      .prop_map(move |(f, iv)| json!({"type": "histogram", "name": n2.clone(), "field": f, "interval": iv})),
  ]
  .boxed()
}

fn sub_agg() -> BoxedStrategy<Value> {
  prop_oneof![
    Just(json!({"type": "stats", "field": "price"})),
    Just(json!({"type": "value_count", "field": "year"})),
    Just(json!({"type": "terms", "field": "cat"})),
    Just(json!({"type": "top_hits", "size": 2, "sort": [{"field": "year", "order": "asc"}]})),
  ]
  .boxed()
}

fn normalise(weights: &[usize], n: usize) -> Vec<usize> {
  let total: usize = weights.iter().sum();
  let mut commits: Vec<usize> = weights.iter().map(|w| w * n / total.max(1)).collect();
  let assigned: usize = commits.iter().sum();
  if let Some(last) = commits.last_mut() {
    *last += n - assigned;
  }
  commits.retain(|c| *c > 0);
  if commits.is_empty() {
    commits.push(n);
  }
  commits
}

fn composite_of(res: &searchlite_core::api::SearchResult) -> Option<Value> {
  res.aggregations.get("c").map(|a| serde_json::to_value(a).unwrap())
}

impl Property for C30 {
  type Case = Case;
  const ID: &'static str = "C30";
  fn rule() -> String {
    "cases = a corpus of 3-40 documents (keyword and f64/i64 fast fields, multi-valued and missing, fractional and negative values) over 1-3 segments with optional deletions and filter, a composite aggregation of 1-3 sources (terms, histogram with fractional intervals) with an optional sub-aggregation, and a page size 1..5; the pages obtained by sending each after_key back as after (as the in-memory value or through JSON text, as an HTTP/CLI client does) are concatenated and must equal the buckets of the unpaged request (same keys in the same order, same counts, same sub-aggregations), every page but the last must be full and carry after_key == its last key, the last page must carry none. Non-trivial = the walk has >= 3 pages and the aggregation has >= 2 sources; distinct = hash of (documents, sources, size, mode)".into()
  }
  fn assumptions() -> Vec<String> {
    vec![
      "a client that receives after_key in JSON and sends it back is modelled by serde_json::to_string followed by the server-side parse of the request text (the harness builds serde_json with the same features as searchlite, so the parse is the one the HTTP service performs)".into(),
      "page size >= 1 (size 0 is not a paging request)".into(),
    ]
  }
  fn plan(tier: Tier) -> Plan {
    Plan { workers: 16, cases_per_worker: tier.pick(2500, 120000) }
  }
  fn shrink_iters() -> u32 {
    1500
  }
  fn strategy(_tier: Tier) -> BoxedStrategy<Case> {
    let sources = (1usize..=3).prop_flat_map(|n| (0..n).map(source).collect::<Vec<_>>());
    (
      vec(doc(), 3..40),
      vec(1usize..50, 1..4),
      vec(any::<u16>(), 0..3),
      sources,
      1usize..6,
      any::<bool>(),
      proptest::option::weighted(0.4, sub_agg()),
      proptest::option::weighted(0.25, select(vec![json!({"KeywordIn": {"field": "cat", "values": ["red", "green"]}}), json!({"I64Range": {"field": "year", "min": 0, "max": 5}})])),
    )
      .prop_map(|(docs, weights, dels, sources, size, text_roundtrip, sub, filter)| {
        let n = docs.len();
        let commits = normalise(&weights, n);
        let mut deletes: Vec<usize> = dels.iter().map(|s| (*s as usize * n) >> 16).collect();
        deletes.sort_unstable();
        deletes.dedup();
        Case { docs, commits, deletes, sources, size, text_roundtrip, sub, filter }
      })
      .boxed()
  }
  fn run(case: &Case, _ctx: &Ctx) -> Outcome {
    let mut out = Outcome::new();
    out.evals = 1;
    let scratch = sut::Scratch::new("c30");
    let root = scratch.sub("idx");
    let storage = sut::make_storage(&root, StorageKind::Mem);
    let opts = sut::default_options(&root, StorageKind::Mem);
    let idx = match sut::create_index(&root, &schema(), opts, storage) {
      Ok(i) => i,
      Err(e) => {
        out.fail("create-failed", format!("{e:#}"));
        return out;
      }
    };
    let build = || -> anyhow::Result<()> {
      let mut w = idx.writer()?;
      let mut next = 0usize;
      let commits = normalise(&case.commits, case.docs.len());
      for c in commits.iter() {
        for _ in 0..*c {
          let mut m = case.docs[next].clone();
          m.insert("_id".into(), json!(format!("d{next:05}")));
          w.add_document(&sut::document(&Value::Object(m)))?;
          next += 1;
        }
        w.commit()?;
      }
      if !case.deletes.is_empty() {
        let ids: Vec<String> = case.deletes.iter().filter(|i| **i < case.docs.len()).map(|i| format!("d{i:05}")).collect();
        w.delete_documents(&ids)?;
        w.commit()?;
      }
      Ok(())
    };
    if let Err(e) = build() {
      out.fail("corpus-build-failed", format!("{e:#}"));
      return out;
    }
    let reader = match idx.reader() {
      Ok(r) => r,
      Err(e) => {
        out.fail("reader-open-failed", format!("{e:#}"));
        return out;
      }
    };
    let request = |size: usize, after: Option<&Value>| -> Value {
      let mut c = json!({"type": "composite", "sources": case.sources, "size": size});
      if let Some(a) = after {
        c["after"] = a.clone();
      }
      if let Some(s) = &case.sub {
        c["aggs"] = json!({"s": s});
      }
      let mut r = json!({"query": {"type": "match_all"}, "limit": 1, "return_hits": false, "return_stored": false, "execution": "bm25", "aggs": {"c": c}});
      if let Some(f) = &case.filter {
        r["filter"] = f.clone();
      }
      r
    };
    let run = |req: &Value| -> anyhow::Result<searchlite_core::api::SearchResult> {
      if case.text_roundtrip {
        // exactly what a front-end does with a request body
        let text = serde_json::to_string(req)?;
        let parsed: searchlite_core::api::types::SearchRequest = serde_json::from_str(&text)?;
        reader.search(&parsed)
      } else {
        sut::search(&reader, req.clone())
      }
    };
    // unpaged reference
    let full_req = request(1_000_000, None);
    let full = match run(&full_req).map(|r| composite_of(&r)) {
      Ok(Some(v)) => v,
      Ok(None) => {
        out.fail("composite-response-missing", format!("no aggregation 'c' in the response to {full_req}"));
        return out;
      }
      Err(e) => {
        // a rejected configuration is not a paging failure; count it
        out.class(format!("unpaged-request-rejected"));
        let _ = e;
        return out;
      }
    };
    let want: Vec<Value> = full["buckets"].as_array().cloned().unwrap_or_default();
    if !full.get("after_key").map(|v| v.is_null()).unwrap_or(true) {
      out.fail("after-key-on-last-page", format!("the unpaged request (size 1000000, {} buckets) still carries after_key {}", want.len(), full["after_key"]));
      return out;
    }
    // distinct keys, as a sanity check of the reference itself
    let keys: BTreeSet<String> = want.iter().map(|b| b["key"].to_string()).collect();
    if keys.len() != want.len() {
      out.fail("unpaged-buckets-repeat-a-key", format!("unpaged composite returns {} buckets but only {} distinct keys: {}", want.len(), keys.len(), full["buckets"]));
      return out;
    }
    out.class(format!("sources:{}", case.sources.len()));
    out.class(if case.text_roundtrip { "after-through-json-text" } else { "after-as-value" });
    // paged walk
    let mut got: Vec<Value> = Vec::new();
    let mut after: Option<Value> = None;
    let mut pages = 0usize;
    loop {
      pages += 1;
      if pages > want.len() + 3 {
        out.fail("paging-does-not-terminate", format!("{} pages of size {} over {} buckets and after_key is still present; sources {:?}; last after {:?}", pages - 1, case.size, want.len(), case.sources, after));
        return out;
      }
      let req = request(case.size, after.as_ref());
      let page = match run(&req).map(|r| composite_of(&r)) {
        Ok(Some(v)) => v,
        Ok(None) => {
          out.fail("composite-response-missing", format!("no aggregation 'c' in the response to {req}"));
          return out;
        }
        Err(e) => {
          out.fail("page-request-failed", format!("page {pages}: {e:#}; request {req}"));
          return out;
        }
      };
      let buckets = page["buckets"].as_array().cloned().unwrap_or_default();
      let ak = page.get("after_key").cloned().filter(|v| !v.is_null());
      got.extend(buckets.iter().cloned());
      match ak {
        Some(k) => {
          if buckets.len() != case.size {
            out.fail("short-page-with-after-key", format!("page {pages} has {} buckets (size {}) but carries after_key {k}", buckets.len(), case.size));
            return out;
          }
          if buckets.last().map(|b| &b["key"]) != Some(&k) {
            out.fail("after-key-is-not-last-key", format!("page {pages}: after_key {k} != key of the last bucket {:?}", buckets.last().map(|b| &b["key"])));
            return out;
          }
          after = Some(k);
        }
        None => break,
      }
    }
    // compare
    let describe = |i: usize| -> String {
      let g = got.get(i).map(|b| format!("{} (count {})", b["key"], b["doc_count"])).unwrap_or("nothing".into());
      let w = want.get(i).map(|b| format!("{} (count {})", b["key"], b["doc_count"])).unwrap_or("nothing".into());
      format!("position {i}: pages give {g}, unpaged gives {w}")
    };
    let ctxt = || format!("sources {}, size {}, {} pages, after sent back {}; filter {:?}", Value::Array(case.sources.clone()), case.size, pages, if case.text_roundtrip { "through JSON text" } else { "as value" }, case.filter);
    for i in 0..got.len().max(want.len()) {
      match (got.get(i), want.get(i)) {
        (Some(g), Some(w)) => {
          if g["key"] != w["key"] {
            let gk = g["key"].to_string();
            let sig = if i > 0 && got[..i].iter().any(|b| b["key"].to_string() == gk) { "bucket-returned-twice" } else if keys.contains(&gk) { "bucket-skipped-or-reordered" } else { "bucket-not-in-unpaged-response" };
            out.fail(sig, format!("{}; {}", describe(i), ctxt()));
            return out;
          }
          if g["doc_count"] != w["doc_count"] {
            out.fail("bucket-count-differs", format!("{}; {}", describe(i), ctxt()));
            return out;
          }
          if !json_close(g, w) {
            out.fail("bucket-sub-aggregation-differs", format!("position {i}: page bucket {g}, unpaged bucket {w}; {}", ctxt()));
            return out;
          }
        }
        (Some(g), None) => {
          let gk = g["key"].to_string();
          let sig = if got[..i].iter().any(|b| b["key"].to_string() == gk) { "bucket-returned-twice" } else { "bucket-not-in-unpaged-response" };
          out.fail(sig, format!("{}; {}", describe(i), ctxt()));
          return out;
        }
        (None, Some(_)) => {
          out.fail("bucket-missing-from-pages", format!("{}; {}", describe(i), ctxt()));
          return out;
        }
        (None, None) => {}
      }
    }
    // "after_key is absent exactly on the last page": the last page may be empty only when there is no bucket at all
    if pages > 1 && want.len() % case.size == 0 && pages != want.len() / case.size {
      out.fail("trailing-empty-page", format!("{} buckets, size {}: {} pages (the last full page still carried after_key); {}", want.len(), case.size, pages, ctxt()));
      return out;
    }
    out.class(format!("pages:{}", pages.min(6)));
    if want.is_empty() {
      out.class("no-buckets");
    }
    if pages >= 3 && case.sources.len() >= 2 {
      out.nontrivial(fingerprint_json(&(&case.docs, &case.sources, case.size, case.text_roundtrip)));
    }
    out
  }
}
