use slverif::engine::{replay, run_property, Tier};
use slverif::props;

fn main() {
  let args: Vec<String> = std::env::args().skip(1).collect();
  if args.is_empty() {
    eprintln!("usage: check <ID> [--tier quick|thorough] [--replay FILE]");
    std::process::exit(2);
  }
  let id = args[0].to_uppercase();
  // `check C16 --dump-corpus DIR N`: seed corpus for the coverage-guided tier (generated, mutated requests)
  if let Some(pos) = args.iter().position(|a| a == "--dump-corpus") {
    let dir = std::path::PathBuf::from(args.get(pos + 1).cloned().unwrap_or_else(|| "corpus".into()));
    let n: u64 = args.get(pos + 2).and_then(|s| s.parse().ok()).unwrap_or(500);
    let seed: u64 = std::env::var("VERIF_SEED").ok().and_then(|s| s.trim().parse::<i64>().ok()).map(|v| v as u64).unwrap_or(0);
    std::fs::create_dir_all(&dir).expect("corpus dir");
    let strat = <props::c16::C16 as slverif::engine::Property>::strategy(Tier::Quick);
    for i in 0..n {
      let case = slverif::engine::sample_strategy(&strat, seed.wrapping_mul(1_000_003).wrapping_add(i));
      let mut req = case.request.clone();
      for m in case.mutations.iter() {
        props::c16::mutate(&mut req, *m);
      }
      std::fs::write(dir.join(format!("seed-{i:05}.json")), req.to_string()).expect("write corpus file");
    }
    println!("wrote {n} corpus files to {}", dir.display());
    return;
  }
  let mut tier = match std::env::var("VERIF_TIER").ok().as_deref() {
    Some("thorough") => Tier::Thorough,
    _ => Tier::Quick,
  };
  let mut replay_file: Option<String> = None;
  let mut i = 1;
  while i < args.len() {
    match args[i].as_str() {
      "--tier" => {
        i += 1;
        tier = match args.get(i).map(|s| s.as_str()) {
          Some("thorough") => Tier::Thorough,
          Some("quick") => Tier::Quick,
          other => {
            eprintln!("unknown tier {other:?}");
            std::process::exit(2);
          }
        };
      }
      "--replay" => {
        i += 1;
        replay_file = args.get(i).cloned();
      }
      other => {
        eprintln!("unknown argument {other}");
        std::process::exit(2);
      }
    }
    i += 1;
  }
  macro_rules! dispatch {
    ($p:ty) => {{
      if let Some(f) = replay_file.as_ref() {
        replay::<$p>(std::path::Path::new(f), tier)
      } else {
        run_property::<$p>(tier)
      }
    }};
  }
  let code = match id.as_str() {
    "C01" => dispatch!(props::c01::C01),
    "C02" => dispatch!(props::c01::C02),
    "C03" => dispatch!(props::c03::C03),
    "C04" => dispatch!(props::c04::C04),
    "C05" => dispatch!(props::c05::C05),
    "C06" => dispatch!(props::c05::C06),
    "C07" => dispatch!(props::c07::C07),
    "C08" => dispatch!(props::c08::C08),
    "C09" => dispatch!(props::c09::C09),
    "C10" => dispatch!(props::c10::C10),
    "C11" => dispatch!(props::c11::C11),
    "C12" => dispatch!(props::c12::C12),
    "C13" => dispatch!(props::c13::C13),
    "C14" => dispatch!(props::c14::C14),
    "C15" => dispatch!(props::c15::C15),
    "C16" => dispatch!(props::c16::C16),
    "C17" => dispatch!(props::c17::C17),
    "C18" => dispatch!(props::c18::C18),
    "C19" => dispatch!(props::c19::C19),
    "C20" => dispatch!(props::c20::C20),
    "C21" => dispatch!(props::c21::C21),
    "C22" => dispatch!(props::c22::C22),
    "C23" => dispatch!(props::c23::C23),
    "C24" => dispatch!(props::c24::C24),
    "C25" => dispatch!(props::c25::C25),
    "C26" => dispatch!(props::c26::C26),
    "C28" => dispatch!(props::c28::C28),
    #[cfg(feature = "vectors")]
    "C29" => dispatch!(props::c29::C29),
    "C30" => dispatch!(props::c30::C30),
    other => {
      eprintln!("no check for property {other}");
      2
    }
  };
  std::process::exit(code);
}
