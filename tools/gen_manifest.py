#!/usr/bin/env python3
"""Regenerates /verif/MANIFEST.json from the table below and validates it against the schema."""
import json, os, sys

ROOT = os.path.dirname(os.path.dirname(os.path.abspath(__file__)))

# id -> (category, technique, level text, level note, design_ref)
CHECKS = {
  "C01": ("fault_enumeration",
          "crash-point enumeration by property testing: crash images rebuilt from the real filesystem trace of FsStorage (cfg hook) under a stated persistence model, recovered and compared with the store model",
          "Histories of 4-25 calls (add, delete, commit, rollback, drop writer, compact) run on the real FsStorage with the trace hook installed. For 24 (quick) / 200 (thorough) crash plans per history - a crash point biased to lie inside commit / compaction / rollback or right after a call returned, and a persistence choice (directory operations since the last directory fsync survive as a prefix; every file keeps a prefix of its un-fsynced writes with the next one torn at any byte; or nothing / everything survives) - the image is rebuilt from the trace, written to the same path and opened: open and search must succeed and the contents must equal the state after the last commit that returned, or the complete result of the commit in flight.",
          "Trusted: the persistence model stated in the evidence's assumptions (ordered-metadata journaling; fsync(file) persists data and the file's own creation), harness/src/crash.rs, the store model. Hook: searchlite-core/src/verif.rs (FS event trace).",
          "DESIGN.md §5 C01"),
  "C02": ("fault_enumeration",
          "multi-round crash/restart property testing on crash images rebuilt from the real filesystem trace, with a WAL queue model (prefix + sync watermark)",
          "1-3 crash/restart rounds per case: each round runs 2-10 calls (biased to leave queued operations behind: adds/deletes followed by a writer drop, a commit attempt or nothing) under the trace hook, crashes at a generated point with a generated persistence choice (log tails torn at any byte) and restarts on the image; the next round continues on the recovered directory. Per restart the queue a new writer recovers (public WAL API) must be an in-order prefix of the operations queued at the crash that contains every operation followed by a successful log sync (writer drop by contract, commit attempt by its observed fsync), resp. be empty or complete for a commit already published; at the end a new writer's commit must equal the crash-free model for the recovered queue.",
          "Trusted: as C01. A commit in flight whose result equals the state before it is judged leniently (published or not cannot be told apart).",
          "DESIGN.md §5 C02"),
  "C03": ("fault_enumeration",
          "fault-injection property testing: a failing Storage wrapper (k-th storage-level call fails before / after / half-way) under generated histories, judged against the store model; single faults enumerated exhaustively in the thorough tier",
          "Histories of 3-14 calls (add, delete, commit, rollback, compact, new writer handle, reopen) run on a wrapper around the in-memory or filesystem storage that fails chosen storage-level calls (Storage trait methods and file-handle read/write/flush/seek/set_len/sync_all) before their effect, after it, or after half of a write. Quick: 14 fault plans per history (single faults, and double faults with the second 1-12 calls after the first); thorough: additionally every call index of the fault-free run x 3 modes for a quarter of the histories. Per faulted API call: Err => a new reader of the live index and a fresh open from storage both show the committed contents unchanged, and the same call retried on healthy storage succeeds; Ok => its effects are fully visible in both views; two faults inside one call => the index stays openable with one of the two complete states; at the end open + new writer + commit must give committed + queued operations.",
          "Trusted: the store model; the wrapper's reading of 'atomic_write is atomic'. The oracle's own reads are not counted and never fail.",
          "DESIGN.md §5 C03"),
  "C04": ("exploration",
          "model-based stateful property testing (proptest op sequences vs. reference store model)",
          "Generated histories of add/delete/commit/rollback/compact/reopen over 1-3 writer handles and both storages are executed against the real index and against an in-memory reference model; a fresh reader's match_all must equal the model after every check point. Exploration, not proof: it samples the history space (thousands of histories per run) and shrinks any failure to a minimal op list.",
          "Trusted: the reference store model (harness/src/model.rs), serde_json, proptest. In-memory storage is driven with one live handle at a time.",
          "DESIGN.md §5 C04"),
  "C05": ("exploration",
          "schedule exploration by property testing: real threads under a baton scheduler driven by generated, shrinkable plans through hook points in searchlite-core; serializability judged by simulating every serial order on the store model",
          "2-3 real threads, each with its own writer handle and a program of 1-4 calls (add, delete, commit, rollback; optionally a compaction thread) run on one filesystem index; the schedule plan (forced baton switches at numbered hook points, preference order, optional dense switching) is executed through hooks in front of every writer-lock acquisition and inside add / commit / compaction, the lock hook reading the real mutex state. No call may fail, the live and the reopened index must agree, and final contents plus every add_document return value must be produced by some serial order of the calls (all merges respecting program order, with each handle's opening as a call of its own, simulated on the multi-handle store model).",
          "Only interleavings at the hook points are explored. Trusted: harness/src/sched.rs, the store model. A stuck schedule is exit 2, never a violation. Hook: verif::point / verif::lock_wait.",
          "DESIGN.md §5 C05"),
  "C06": ("exploration",
          "schedule exploration by property testing: reader / writer / compaction threads under the baton scheduler, reader results judged against the model's sequence of committed states and the open window taken from the global event log",
          "One writer thread (adds, deletes, commits), optionally a compaction thread, and 1-2 reader threads (open, search 1-3 times, possibly open again) as real threads on one index with 2-5 seed documents in two segments; the schedule plan is executed through hook points in reader open (after the manifest copy, before every segment open), commit (5 points) and compaction (after its reader, after publishing, after deleting old segments). Index::reader() and every search must succeed; all searches of one reader must return one committed state S_i, the same each time, with i between the commits finished before the open began and the commits begun before it ended.",
          "Only interleavings at the hook points are explored. Trusted: harness/src/sched.rs, the store model, the event log's total order.",
          "DESIGN.md §5 C06"),
  "C07": ("exploration",
          "property-based testing against a three-valued reference query matcher over the raw JSON documents",
          "Random schemas (analyzer menu: default/whitespace/unicode, stopwords, stemming, synonyms), corpora committed over 1-4 segments with upserts and deletions, and query trees over every node type (plus request-level fuzzy and default fields) are run with execution=bm25 and a limit above the corpus size; the hit-id set must lie between the reference matcher's must-match and may-match sets. Per corpus the closed-form family term(field, word) is checked for every word of every indexed value, for plain analyzers against an independent tokenisation.",
          "Trusted: the crate's analyzers (tokens), harness/src/qmodel.rs + fmodel.rs (documented semantics), regex crate. Undocumented shapes are don't-care or not generated (see assumptions in the evidence). One listed known finding is excluded by predicate and counted.",
          "DESIGN.md §5 C07"),
  "C08": ("exploration",
          "property-based testing against a reference filter evaluator over the raw JSON documents",
          "Random schemas with fast keyword/i64/f64 fields and nested objects up to three levels, documents with arrays of parent objects holding child arrays, and And/Or/Not/Nested filter trees (sibling Nested on one path, Nested inside Nested, dotted paths, type-mismatched clauses). Each filter is run through request.filter, bool.filter and constant_score.filter and the hit-id set must equal the harness's independent evaluator of the documented semantics.",
          "Trusted: harness/src/fmodel.rs (the documented filter semantics as read from the README). Null members of nested arrays and dotted field names inside a Nested clause are not generated (unspecified).",
          "DESIGN.md §5 C08"),
  "C09": ("exploration",
          "differential property-based testing (execution=wand|bmw vs execution=bm25 on the same reader)",
          "Corpora of 30-2500 short documents over a 15-word vocabulary (posting lists spanning many blocks) in 1-3 segments with deletions and four (k1,b) settings; 12 scored query trees per corpus (terms, bool, dis_max, boosts incl. 0, multi_match, expansions, function_score, script_score, rank_feature, constant_score, phrases) (function_score also with min_score, nested and as a root wrapper) with limit 1..50 (a quarter 1..3), optional filter, wand or bmw and block size 1..300 / 128 / default; two cases in seven use a block-boundary corpus (one word in every document so that posting index = document ordinal, equal lengths, high-tf documents at and next to the last position of every 128-posting block) with term / bool queries on that word, limit 1..3 and the stored block size. The pruned response must equal the exhaustive one (length, position-wise and per-id scores within 1e-5 relative, membership differing only among ties with the k-th score) and its total_hits_estimate must not exceed the exhaustive one.",
          "Trusted: the exhaustive bm25 strategy as the reference (C10 checks it against an independent BM25 model). Float tolerance 1e-5 relative.",
          "DESIGN.md §5 C09"),
  "C10": ("exploration",
          "property-based testing against a reference BM25/score-combination model and documented sort keys computed from the raw documents",
          "Tie-heavy corpora (missing and multi-valued sort fields, 1-4 segments, four (k1,b) settings), scored query trees (boosts, dis_max + tie_breaker, multi_match, prefix, constant_score, function_score with weight/field_value_factor/decay and all score/boost modes, rank_feature, script_score), filters and sort plans of 0-3 keys: (a) hits must be sorted by the documented keys (min for asc, max for desc, missing last, returned scores for _score) with ties by segment then document order; (b) on deletion-free corpora every score must equal the reference BM25 combination within 1e-5 relative.",
          "Trusted: harness/src/smodel.rs (BM25 formula from the README/bm25.rs, own tokenizer for the default analyzer, own script evaluator) and qmodel.rs for sub-query matching; the model's segment/ordinal assumption is cross-checked against IndexReader.segments[i].doc_id(ord).",
          "DESIGN.md §5 C10"),
  "C11": ("exploration",
          "property-based testing: cursor walk vs single covering request (metamorphic) plus cursor-misuse scenarios",
          "Tie-heavy corpora over 1-4 segments with deletions, queries, filters, sort plans of 0-3 keys, page sizes 1..7, all three execution strategies and (30%) a candidate_size above the page size: the concatenated pages must equal the single covering request (ids, order, scores), without duplicates, with full pages and no cursor on the last page; total_hits_estimate never exceeds the true count and is exact when execution is exhaustive. The first page's cursor is then replayed after an add+commit, a compaction, a delete-only commit and against a different sort plan and must be rejected (leniently judged after a delete-only commit).",
          "Trusted: the single covering request as reference for order (C10 checks that order against an independent model). Cursor walks combined with rescore are not generated (unspecified).",
          "DESIGN.md §5 C11"),
  "C12": ("exploration",
          "property-based testing: the same documents under several segment layouts (metamorphic) plus an independent reference aggregation evaluator over the raw JSON documents",
          "Corpora of 4-40 documents (keyword/i64/f64 fast fields: single, multi-valued, missing) with optional filter and deletions are committed under 3-4 segment layouts (one segment, two random partitions, one document per segment) and asked 6 aggregation trees of depth <= 2 (terms with size/min_doc_count/missing, rare_terms, range, histogram with offset/bounds/missing/min_doc_count, stats, extended_stats, value_count, cardinality, exact percentiles and percentile_ranks, filter, top_hits size/from/sort, plus composite and date_histogram for the layout comparison): (1) the responses under all layouts must be equal, (2) the response must equal the reference computation over the matched live documents, with limits and thresholds applied to the merged counts.",
          "Trusted: harness/src/amodel.rs (the documented aggregation semantics), props/c13.rs json_close (counts, keys, ids exact; f64 1e-9 relative). The query is match_all (+ filter) so that top_hits scores do not depend on segment statistics; shard_size, sampling, precision_threshold and pipeline aggregations are not generated (documented as approximate or outside the property's list); range bounds never coincide with a data value.",
          "DESIGN.md §5 C12"),
  "C13": ("exploration",
          "metamorphic property-based testing (one base request vs paging / sort / execution / flag / rescore variations)",
          "For generated corpora, queries, filters, aggregation trees (terms, rare_terms, range, histogram, filter, composite, metrics, percentiles, top_hits) and completion suggest requests, the aggregations and suggestions of 5 variations per case (limit 1..n, return_hits=false, sort plans, wand/bmw block sizes, explain/profile, rescore, every page of a cursor walk) must equal those of a covering bm25 base request: counts, keys and document ids exact, f64 aggregates within 1e-9 relative, top_hits hit scores (f32 sums) within the harness-wide score tolerance of 1e-5 relative; a score-ordered top_hits list may hold another document at a position only when the scores there are within that tolerance (tie rule of DESIGN §8, counted as a class, not judged) - except between exact ties (same segment, same token multisets, bit-identical base scores; or a plain score-descending top_hits whose base list holds the later of two documents with bit-identical base scores and lacks the earlier one), where a swap is a violation.",
          "Trusted: the comparison only (props/c13.rs agg_cmp). Differences of top_hits scores under explain are attributed to the listed C20 finding.",
          "DESIGN.md §5 C13"),
  "C14": ("exploration",
          "metamorphic property-based testing (before/after Index::compact on generated histories, queries and filters)",
          "Generated schemas (mostly compactable, some not), histories of 1-5 commits with upserts and deletes over nested / multi-valued / null / empty values, 10 queries and 10 filter trees: live ids, stored fields and every query/filter id set are captured before and after compaction, through the same Index and a fresh open, and must be equal; segment count and tombstones are checked after a rewrite; a refusal must leave everything unchanged.",
          "Trusted: nothing but the comparison itself (no reference model needed). Differences confined to documents without any scored term of the query are attributed to the listed C07 finding (dictionary terms of deleted documents disappear at compaction) and counted as excluded.",
          "DESIGN.md §5 C14"),
  "C15": ("exploration",
          "property-based testing with structural JSON mutation of schema-valid documents against an independent schema validator",
          "Random schemas and schema-valid documents are mutated by 1-3 structural edits (undeclared keys, replaced/wrapped/removed nodes, id edits). Oracle: add_document Ok implies commit Ok and a later valid document through a fresh writer commits; a document violating a documented rule (independent validator in the harness) must be rejected at add_document. Tens of thousands of documents per quick run.",
          "Trusted: the harness's own reading of the documented schema rules (props/c15.rs schema_violation). Top-level keys that are dotted paths of declared nested leaves are not generated (README documents flattened dotted names).",
          "DESIGN.md §5 C15"),
  "C18": ("exploration",
          "property-based testing with the uncollapsed ranking of the same request as oracle",
          "Tie-heavy corpora with a single-valued (or missing) group field over 1-4 segments, queries, filters, main sort plans, limits below and above the number of matches, candidate sizes and inner_hits {size, from, sort}: the collapsed response is judged against the same request without collapse: one hit per value, every hit is the best-ranked member of its group, groups form a prefix of the groups in ranking order, documents without the field never appear, total_groups within bounds (exact when the limit covers every match), inner hits are other members of the group in inner-sort order windowed by from/size (exact when the limit covers every match). One case in five collapses a rescored ranking (default score sort, covering limit): one hit per group, every group present, representative = a member with the group's highest score after rescoring. One listed finding (pool cut before grouping) is matched by predicate.",
          "Trusted: the uncollapsed response (checked by C10/C11). An inner sort using _score is only combined with a main sort that uses _score.",
          "DESIGN.md §5 C18"),
  "C19": ("exploration",
          "property-based testing with a differential oracle (same request without rescore + standalone search for the rescore query)",
          "Corpora, initial scored queries, rescore queries (optionally rejecting documents through min_score), window sizes 0..limit+5, all five score modes, limits and candidate sizes, default score sort or a leading single-valued fast key in front of _score desc: the response must be the window survivors with the documented score combination, ordered by the new score (within each run of equal leading sort values), followed by the untouched tail (original scores, original order), truncated to limit.",
          "Trusted: standalone bm25 searches on the same reader for the rescore scores; tolerance 1e-5 relative; windows larger than the guaranteed candidate pool are classified but not judged.",
          "DESIGN.md §5 C19"),
  "C20": ("exploration",
          "metamorphic property-based testing (explain/profile off vs on)",
          "Requests over generated corpora (query, filter, sort plan, limit, execution strategy, optional aggregations, optional rescore, first or second page) are evaluated with (explain, profile) off and with the three other combinations: ids, order, scores, totals, cursors and aggregations must be equal, every hit must carry an explanation whose final_score equals its score, and profile must be present when asked. Three listed findings (one root cause: explain runs a separate execution path) are matched by predicate and excluded.",
          "Trusted: comparison only; score tolerance 1e-5 relative.",
          "DESIGN.md §5 C20"),
  "C16": ("exploration",
          "structure-aware fuzzing with proptest: valid request skeletons + type-aware hostile JSON mutation, executed in a supervised child process (panic, abort and hang detection)",
          "Structurally valid search requests (query trees over every node type, filters, sorts, cursors, execution strategies, fuzzy, highlight, collapse, aggregations incl. pipeline/date/significant/composite kinds, suggest, rescore, explain/profile) against three read-only in-memory indexes are mutated by 0-4 type-aware edits (numbers to extremes, strings to hostile patterns/scripts/field names/units, arrays emptied or multiplied, objects losing/swapping members or nested into themselves), plus arbitrary cursor strings and edited copies of real cursors. Whenever the JSON deserializes as SearchRequest, search must return Ok or Err: panics are caught and keyed by call site, a process abort (allocation failure) or a hang (120 s) of the supervised child is traced back to the in-flight case and reported.",
          "Release profile. Trusted: the supervisor (engine.rs supervise). The child's address space is limited to 24 GiB so that runaway allocations abort early.",
          "DESIGN.md §5 C16"),
  "C17": ("fault_enumeration",
          "fault-injection property testing: generated and (thorough) exhaustively enumerated single-file corruptions of generated indexes, judged against the uncorrupted baseline and a WAL prefix model, in a supervised child process",
          "Small filesystem indexes (6-30 documents, 1-3 segments, tombstones, 0-4 queued operations in wal.log) are corrupted one file at a time: single-byte xor, truncation, 4-byte extreme stamps (60 sampled corruptions per index in quick; the thorough tier additionally enumerates EVERY byte x 4 masks and EVERY truncation length of EVERY file for a quarter of its, smaller, indexes). After each corruption Index::open -> reader -> a battery of five searches must fail with an error or equal the uncorrupted baseline exactly; for wal.log a new writer + commit must yield the committed contents plus an in-order prefix of the queued operations; a panic is caught and keyed by call site, an abort or hang of the supervised child is traced to the corruption in flight. One listed finding (MANIFEST.json has no integrity protection: silent difference) is matched by (file kind, outcome) and counted.",
          "Trusted: the baseline of the uncorrupted index; the store model for WAL prefixes. Failures are saved as self-contained replays (the exact index bytes are attached, since index files contain random ids and timestamps).",
          "DESIGN.md §5 C17"),
  "C21": ("exploration",
          "property-based testing with a validity predicate over every returned fragment/snippet",
          "Stored texts of 1-60 words over ASCII/Latin-1/CJK/Cyrillic/Greek/Hangul/Hebrew words joined by separators with multi-byte punctuation and emoji, indexed under 3 analyzers; queries built from the text's own words (term, query_string, phrase, bool); highlight options with tags disjoint from the text, number_of_fragments 0..4 and fragment_size = 2 x longest matched surface form + slack (the precondition holds by construction); also the legacy highlight_field snippet. Every fragment must be non-empty, contain a tagged match, be a substring of the stored text without tags, have at most fragment_size characters, and at most number_of_fragments fragments are returned.",
          "Trusted: nothing but the predicate. Length judged in characters (lenient).",
          "DESIGN.md §5 C21"),
  "C22": ("exploration",
          "property-based testing against a reference term dictionary (document frequencies computed from the raw documents) plus layout/size/repetition metamorphic relations",
          "Corpora of 3-40 documents without deletions (text field under 5 analyzers, keyword field, vocabulary sharing prefixes and a dense family for the scan-cap stratum) are committed under 2-4 segment layouts and asked completion requests (single-word prefixes of length 0-5 incl. upper-case ASCII and non-ASCII ones, size 1..10, optional fuzzy options): every option must be an indexed term matching the analyzed prefix (or within the edit distance and sharing prefix_length characters), unique, sorted by (score desc, text asc), at most size; doc_freq must equal the number of indexed documents containing the term; below the scan cap the options must be the head of the covering-size list, which must hold exactly the eligible terms; answers must be identical across layouts, repeated calls and fresh readers.",
          "Trusted: the crate's analyzers for tokenisation (index terms and the analyzed prefix), harness Levenshtein. At or above the scan cap only soundness (term validity, ordering, doc_freq upper bound) is judged.",
          "DESIGN.md §5 C22"),
  "C23": ("exploration",
          "model-based property testing of the real HTTP service (in-process server, loopback TCP, raw HTTP/1.1 client) against a write-queue model",
          "5-30 requests per case against searchlite-http on a fresh index: /add (NDJSON) and /bulk with 1-4 documents that are valid, not JSON, not an object, or violate the schema at a generated position, /delete with valid or invalid id lists, /commit, /refresh, /compact, /search. A 2xx write appends its operations to the model queue (and must report queued == number of items), a rejected write appends nothing, /commit applies the queue in order; after every successful /commit and at the end /search(match_all) must equal the model (ids and stored fields); valid writes and commits must never be rejected.",
          "Trusted: harness/src/httpc.rs (server bootstrap, HTTP client), the queue model. Requests are sequential. Supervised child process.",
          "DESIGN.md §5 C23"),
  "C24": ("exploration",
          "property-based testing / protocol fuzzing of the real HTTP service (in-process server, raw HTTP/1.1 client) against the documented status and body contract",
          "2-10 requests before /init and 4-25 after it per case (--max-body-bytes 16384): each of the 11 routes with a documented-valid body, a body it must reject (bad JSON, wrong types, schema violations, invalid search requests), a valid body with byte damage, an oversized body (Content-Length or chunked), a wrong content type, no body; /search with hostile mutated requests (C16's mutator); wrong methods, unknown paths, bytes that are not HTTP. Every request must get a syntactically valid HTTP response; on documented routes 2xx bodies carry the documented members and non-2xx bodies are {error:{type,reason}}; 404 before /init, 409 for a second /init, 413 for oversized bodies, 4xx (never 5xx) for invalid input, 2xx for valid input; undefined methods/paths and non-HTTP bytes get a well-formed non-2xx answer; /healthz answers after every request; an abort of the process is caught by the supervisor.",
          "Trusted: harness/src/httpc.rs. For undefined methods/paths only a well-formed refusal is required. Once a damaged-but-accepted schema created the index, validity of documents is no longer assumed.",
          "DESIGN.md §5 C24"),
  "C25": ("exploration",
          "differential property-based testing: the same generated script through a front-end (CLI subprocess, in-process HTTP service, C FFI) and through the Rust API with the front-end's own call pattern and options",
          "Scripts of 4-14 steps on a fresh index - add/update documents (JSONL file, NDJSON/bulk body, add_json), delete ids, commit, compact, and searches restricted to what the front-end can express (CLI flags or --request file, HTTP JSON, FFI query/limit/cursor/aggs) - run through the CLI binary built from the working tree (one subprocess per command), the HTTP service (in-process, loopback) or the C API, and through the library on a second directory with the same call pattern (index opened per command, commit per document for add_json) and options (k1 0.9, b 0.4, positions on). Every search response must be equal as JSON (f32 scores within 1e-5 relative) including next_cursor and the second page, a command may fail only where the API call fails, and both directories must end with the same documents and stored fields.",
          "Trusted: the library run as reference (checked by the other properties); harness/src/httpc.rs; JSON comparison. Documents in the scripts are schema-valid.",
          "DESIGN.md §5 C25"),
  "C26": ("exploration",
          "property-based testing of the C ABI with guarded buffers (canary regions, every capacity in the thorough tier) in a supervised child process",
          "Indexes driven only through the C API (searchlite_index_open / add_json / commit / search): queries as plain text, JSON nodes and raw bytes incl. invalid UTF-8, limits 0..6, garbage and real cursors, valid/invalid aggregation JSON. The output buffer sits between two 64-byte canaries in an allocation pre-filled with 0xAA; for 40 sampled capacities plus the boundary ones (quick) or every capacity from 0 to full length + 16 (half of the thorough cases) the call must leave canaries and every byte at index >= buf_cap untouched, return ret <= buf_cap-1 with a NUL at ret and none before, write a prefix of the full response, leave a zero-capacity buffer alone; null handle/query/buffer return 0 and write nothing; failing searches return 0 and write nothing; the aggregation JSON is passed without a NUL at aggs_len (non-JSON bytes follow it in the same allocation) and a well-formed map must be honoured whenever the same search works without it; null arguments to add/commit return negative status. A crash of the process (null dereference, abort) is caught by the supervisor and traced to the call in flight.",
          "Trusted: the guarded allocation; writes further than 64 bytes outside the buffer that hit unrelated memory without crashing would go unnoticed (no ASan build in this tier).",
          "DESIGN.md §5 C26"),
  "C28": ("exploration",
          "model-based property testing on a copied / moved index directory with a byte-level listing of the original as side-effect oracle",
          "Committed filesystem indexes (4-30 documents, 1-3 segments, deletions, optionally a queued operation in wal.log) are copied file by file to another path or renamed; the original is kept, deleted, or goes on with its own commit + compaction; the copy is opened at the new path and driven with generated search / add / delete / commit / compact / reopen sequences. The copy must open and answer a search battery exactly as the original did at copy time, follow the store model afterwards (after every commit, compaction and reopen), and a byte-for-byte listing of the original directory must be unchanged by anything done through the copy.",
          "Trusted: the store model; the listing. The copy is taken while no writer is open.",
          "DESIGN.md §5 C28"),
  "C29": ("exploration",
          "property-based testing against an exact nearest-neighbour / similarity reference computed from the raw vectors (harness built with --features vectors)",
          "Indexes with a vector field (dim 1-6, cosine or L2, optional hnsw parameters) and 3-40 documents with present / null / missing vectors, committed in segments of at most 16 vectors (the exactness regime of the statement) with deletions. Vector-only requests (k, boost, filter, vector_filter, limit): every hit must be a live document with a vector passing both filters, vector_score == exact similarity x boost == score, hits ordered by score and equal to the exact top-limit similarities. Hybrid requests (object or legacy tuple, alpha 0 / 0.25 / 0.5 / 1): vector_score exact, score == alpha x text score + (1-alpha) x vector score against a text-only run on the same reader, ordered by score. A wrong-dimension query vector must be an error; a wrong-dimension document vector must be rejected at add or at commit.",
          "Trusted: harness similarity functions (f32, 1e-4 relative), fmodel.rs for filters. Whether a hybrid request returns text matches that have no vector is not judged.",
          "DESIGN.md §5 C29"),
  "C30": ("exploration",
          "metamorphic property-based testing (composite page walk vs unpaged request), after_key handed back as value and through JSON text",
          "Corpora of 3-40 documents (keyword and f64/i64 fast fields, multi-valued, missing, fractional/negative/extreme values) over 1-3 segments with deletions and optional filter; composite aggregations of 1-3 sources (terms, histogram with fractional intervals) with optional sub-aggregation and page size 1..5. The concatenated pages must equal the unpaged buckets (keys, order, counts, sub-aggregations), every page but the last must be full with after_key == its last key, and the last page must carry no after_key; half of the cases send after_key back through JSON text exactly as an HTTP/CLI/FFI client does.",
          "Trusted: the unpaged response as reference (C12 compares composite responses across segment layouts). The harness must not enable serde_json features that searchlite does not (feature unification would mask parse differences).",
          "DESIGN.md §5 C30"),
}

NOT_APPLICABLE = {
  "C27": "browser/IndexedDB build (wasm32 + web-sys) cannot be compiled or executed in this sandbox: no wasm32 target, no wasm-bindgen runner, no IndexedDB; generated inputs cannot reach the anchored code (DESIGN.md §7)",
}

ALL = ["C%02d" % i for i in range(1, 31)]

def main():
  hooks_commits = []
  hc = os.path.join(ROOT, "hooks_commits.txt")
  if os.path.exists(hc):
    hooks_commits = [l.split()[0] for l in open(hc) if l.strip() and not l.startswith("#")]
  checks = []
  for pid in ALL:
    if pid not in CHECKS:
      continue
    cat, tech, text, note, ref = CHECKS[pid]
    checks.append({
      "property_id": pid,
      "quick_cmd": f"./check {pid} --tier quick",
      "thorough_cmd": f"./check {pid} --tier thorough",
      "evidence_file": f"/verif/evidence/{pid}.json",
      "replay_cmd_template": f"./check {pid} --replay {{path}}",
      "engine": "slverif",
      "level_claimed": {"category": cat, "text": text, "design_ref": ref},
      "level_note": note,
      "technique": tech,
    })
  na = []
  for pid in ALL:
    if pid in CHECKS:
      continue
    reason = NOT_APPLICABLE.get(pid, "check not built yet in this round (planned: see DESIGN.md §5); not claimed")
    na.append({"property_id": pid, "reason": reason})
  manifest = {
    "version": 1,
    "setup_cmd": "./setup.sh",
    "hooks": {
      "guard": "cfg(searchlite_verif)",
      "enable": "RUSTFLAGS=\"--cfg searchlite_verif\" (set in /verif/harness/.cargo/config.toml [build] rustflags; the harness depends on /repo crates by path)",
      "baseline_off_cmd": "cd /repo && cargo test --workspace --no-fail-fast --offline",
      "source_commits": hooks_commits,
      "add_only": True,
    },
    "engines": [
      {"name": "slverif", "path": "/verif/harness", "serves_properties": sorted(CHECKS.keys()),
       "kind_free_text": "Rust harness crate: seeded parallel proptest runners (16 workers), shrinking, JSON replay files, committed regression cases (/verif/regressions/<ID>/*.json, run first), known-finding matcher, evidence writer; depends on /repo/searchlite-* by path so every run rebuilds from the working tree"},
    ],
    "checks": checks,
    "not_applicable": na,
    "notes": "exit 0 = held; exit 1 + 'VIOLATION property=<id> replay=<path>' = violation; exit 2 = harness trouble (build failure, generator abort) and never a violation. Known findings: /verif/known_findings.txt.",
  }
  out = os.path.join(ROOT, "MANIFEST.json")
  with open(out, "w") as f:
    json.dump(manifest, f, indent=1)
    f.write("\n")
  try:
    import jsonschema
    schema = json.load(open("/root/.vp/MANIFEST.schema.json"))
    jsonschema.validate(manifest, schema)
    print("MANIFEST.json valid;", len(checks), "checks,", len(na), "not claimed")
  except ImportError:
    print("jsonschema not importable; wrote MANIFEST.json unvalidated")

if __name__ == "__main__":
  main()
