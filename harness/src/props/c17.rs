//! C17 — corrupted index files are detected (or, for the WAL, only the intact prefix is recovered).
use std::collections::BTreeMap;
use std::panic::{catch_unwind, AssertUnwindSafe};
use std::path::{Path, PathBuf};

use proptest::collection::vec;
use proptest::prelude::*;
use proptest::sample::select;
use serde::{Deserialize, Serialize};
use serde_json::{json, Map, Value};

use crate::engine::{fingerprint, note_inflight, sanitize_sig, take_last_panic, Ctx, Outcome, Plan, Property, Tier};
use crate::model::{apply_ops, normal, stored_projection, Contents, QOp};
use crate::scoreworld::{self, World, WorldOpts};
use crate::sut::{self, Scratch, StorageKind};

#[derive(Clone, Debug, Serialize, Deserialize)]
pub enum Pending {
  Add(usize, Map<String, Value>),
  Del(usize),
}

#[derive(Clone, Debug, Serialize, Deserialize)]
pub enum Corruption {
  /// xor one byte: (file selector, offset selector, mask)
  Flip(u16, u32, u8),
  /// truncate the file to a length: (file selector, length selector)
  Truncate(u16, u32),
  /// overwrite 4 bytes with an extreme little-endian value (length fields, counts)
  Stamp(u16, u32, u8),
}

#[derive(Clone, Debug, Serialize, Deserialize)]
pub struct Case {
  pub world: World,
  /// operations queued (and synced by dropping the writer) but not committed
  pub pending: Vec<Pending>,
  pub corruptions: Vec<Corruption>,
  /// enumerate every byte x 4 masks and every truncation length of every file instead of `corruptions`
  pub exhaustive: bool,
  /// Replay files only: the exact index directory the failure was observed on (index files carry
  /// random ids, timestamps and hash-ordered JSON, so the same recipe never yields the same bytes)
  #[serde(default)]
  pub snapshot: Option<Snapshot>,
}

#[derive(Clone, Debug, Serialize, Deserialize)]
pub struct Snapshot {
  /// absolute path the index was built at (the manifest refers to it)
  pub root: String,
  /// file name -> hex bytes
  pub files: Vec<(String, String)>,
  /// the one corruption that failed: (file, description, hex bytes of the corrupted file)
  pub trial: (String, String, String),
}

fn hex(b: &[u8]) -> String {
  let mut s = String::with_capacity(b.len() * 2);
  for x in b {
    s.push_str(&format!("{x:02x}"));
  }
  s
}

fn unhex(s: &str) -> Vec<u8> {
  (0..s.len() / 2).filter_map(|i| u8::from_str_radix(&s[2 * i..2 * i + 2], 16).ok()).collect()
}

pub struct C17;

pub const SIG_MANIFEST_SILENT: &str = "silent-difference:MANIFEST.json";

/// Where two manifest texts differ, as a member path with array indices and numbers-in-names removed
/// ("segments[].doc_count", "key:segments" when a member name itself changed, "not-json" when the altered text
/// does not parse although it was accepted).
pub fn manifest_diff_path(orig: &[u8], altered: &[u8]) -> String {
  let (Ok(a), Ok(b)) = (serde_json::from_slice::<Value>(orig), serde_json::from_slice::<Value>(altered)) else { return "not-json".into() };
  fn walk(a: &Value, b: &Value, path: &str) -> Option<String> {
    match (a, b) {
      (Value::Object(x), Value::Object(y)) => {
        for k in x.keys() {
          if !y.contains_key(k) {
            return Some(format!("{path}key:{k}"));
          }
        }
        for k in y.keys() {
          if !x.contains_key(k) {
            return Some(format!("{path}key:+{k}"));
          }
        }
        for (k, v) in x.iter() {
          if let Some(p) = walk(v, &y[k], &format!("{path}{k}.")) {
            return Some(p);
          }
        }
        None
      }
      (Value::Array(x), Value::Array(y)) => {
        if x.len() != y.len() {
          return Some(format!("{path}[len]"));
        }
        x.iter().zip(y.iter()).find_map(|(p, q)| walk(p, q, &format!("{}[].", path.trim_end_matches('.'))))
      }
      _ => {
        if a == b {
          None
        } else {
          Some(path.trim_end_matches('.').to_string())
        }
      }
    }
  }
  let p = walk(&a, &b, "").unwrap_or_else(|| "same-value-other-text".into());
  // segment ids / file names inside member names are data, not structure
  p.chars().filter(|c| !c.is_ascii_digit()).collect::<String>().replace(' ', "_")
}

fn file_kind(name: &str) -> String {
  if name == "MANIFEST.json" || name == "wal.log" {
    return name.to_string();
  }
  match name.rsplit_once('.') {
    Some((_, ext)) => format!("seg.{ext}"),
    None => name.to_string(),
  }
}

struct Built {
  scratch: Scratch,
  root: PathBuf,
  opts: searchlite_core::api::types::IndexOptions,
  /// pristine bytes of every file in the directory
  files: BTreeMap<String, Vec<u8>>,
  committed: Contents,
  pending: Vec<QOp>,
}

fn build(case: &Case) -> anyhow::Result<Built> {
  let scratch = Scratch::new("c17");
  let root = match &case.snapshot {
    Some(s) => PathBuf::from(&s.root),
    None => scratch.sub("idx"),
  };
  let storage = sut::make_storage(&root, StorageKind::Fs);
  let opts = sut::index_options(&root, true, StorageKind::Fs, case.world.k1, case.world.b);
  let schema = scoreworld::schema();
  // with a snapshot the real index is only needed for the model (committed / pending); it is built in a side directory
  let build_root = if case.snapshot.is_some() { scratch.sub("model") } else { root.clone() };
  let build_storage = if case.snapshot.is_some() { sut::make_storage(&build_root, StorageKind::Fs) } else { storage };
  let build_opts = sut::index_options(&build_root, true, StorageKind::Fs, case.world.k1, case.world.b);
  let idx = sut::create_index(&build_root, &schema, build_opts, build_storage)?;
  let mut committed = Contents::new();
  let mut pending = Vec::new();
  {
    let mut w = idx.writer()?;
    let mut next = 0usize;
    for c in case.world.commits.iter() {
      for _ in 0..*c {
        let d = case.world.doc_json(next);
        w.add_document(&sut::document(&d))?;
        committed.insert(format!("d{next:05}"), d);
        next += 1;
      }
      w.commit()?;
    }
    if !case.world.deletes.is_empty() {
      let ids: Vec<String> = case.world.deletes.iter().map(|i| format!("d{i:05}")).collect();
      w.delete_documents(&ids)?;
      w.commit()?;
      for id in ids {
        committed.remove(&id);
      }
    }
    for p in case.pending.iter() {
      match p {
        Pending::Add(i, body) => {
          let id = format!("d{:05}", i % (case.world.docs.len() + 3));
          let mut m = body.clone();
          m.insert("_id".into(), json!(id));
          let d = Value::Object(m);
          w.add_document(&sut::document(&d))?;
          pending.push(QOp::Add(id, d));
        }
        Pending::Del(i) => {
          let id = format!("d{:05}", i % (case.world.docs.len() + 3));
          w.delete_documents(&[id.clone()])?;
          pending.push(QOp::Del(id));
        }
      }
    }
    // dropping the writer syncs the log
  }
  drop(idx);
  let mut files = BTreeMap::new();
  if let Some(snap) = &case.snapshot {
    let _ = std::fs::remove_dir_all(&root);
    std::fs::create_dir_all(&root)?;
    for (name, h) in snap.files.iter() {
      let bytes = unhex(h);
      std::fs::write(root.join(name), &bytes)?;
      files.insert(name.clone(), bytes);
    }
    return Ok(Built { scratch, root, opts, files, committed, pending });
  }
  for e in std::fs::read_dir(&root)? {
    let e = e?;
    if e.file_type()?.is_file() {
      files.insert(e.file_name().to_string_lossy().to_string(), std::fs::read(e.path())?);
    }
  }
  Ok(Built { scratch, root, opts, files, committed, pending })
}

/// What a reader sees: a small battery that touches the docstore, the postings, the fast fields and the aggregations.
fn battery(opts: &searchlite_core::api::types::IndexOptions, root: &Path, n: usize) -> anyhow::Result<Value> {
  let storage = sut::make_storage(root, StorageKind::Fs);
  let idx = searchlite_core::api::Index::open_with_storage(opts.clone(), storage)?;
  let reader = idx.reader()?;
  let mut out = Vec::new();
  let reqs = [
    json!({"query": {"type": "match_all"}, "limit": n + 10, "return_stored": true, "execution": "bm25"}),
    json!({"query": {"type": "query_string", "query": "rust search fox the"}, "limit": n + 10, "execution": "bm25"}),
    json!({"query": {"type": "prefix", "field": "title", "value": "r"}, "limit": 5, "execution": "wand"}),
    json!({"query": {"type": "match_all"}, "filter": {"Or": [{"KeywordIn": {"field": "tag", "values": ["red", "green", "x"]}}, {"I64Range": {"field": "year", "min": 1, "max": 3}}]}, "sort": [{"field": "price", "order": "desc"}, {"field": "cat"}], "limit": n + 10, "execution": "bm25",
           "aggs": {"t": {"type": "terms", "field": "cat"}, "s": {"type": "stats", "field": "rank"}}}),
    json!({"query": {"type": "phrase", "field": "body", "terms": ["rust", "search"], "slop": 2}, "limit": n + 10, "execution": "bm25"}),
  ];
  for r in reqs.iter() {
    let res = sut::search(&reader, r.clone())?;
    let hits: Vec<Value> = res.hits.iter().map(|h| json!({"id": h.doc_id, "score": h.score, "fields": h.fields.as_ref().and_then(normal)})).collect();
    out.push(json!({"hits": hits, "total": res.total_hits_estimate, "aggs": serde_json::to_value(&res.aggregations)?}));
  }
  Ok(Value::Array(out))
}

/// Contents after a new writer commits whatever it recovers from the log.
fn recover_and_commit(opts: &searchlite_core::api::types::IndexOptions, root: &Path, n: usize) -> anyhow::Result<Contents> {
  let storage = sut::make_storage(root, StorageKind::Fs);
  let idx = searchlite_core::api::Index::open_with_storage(opts.clone(), storage)?;
  {
    let mut w = idx.writer()?;
    w.commit()?;
  }
  let reader = idx.reader()?;
  let (got, _) = sut::contents(&reader, n + 50)?;
  let mut c = Contents::new();
  for (id, fields) in got {
    if c.insert(id.clone(), fields).is_some() {
      anyhow::bail!("duplicate id {id} after recovery");
    }
  }
  Ok(c)
}

fn restore(root: &Path, files: &BTreeMap<String, Vec<u8>>) {
  // remove whatever a trial created, then write the pristine bytes back
  if let Ok(rd) = std::fs::read_dir(root) {
    for e in rd.flatten() {
      let name = e.file_name().to_string_lossy().to_string();
      if !files.contains_key(&name) {
        let _ = std::fs::remove_file(e.path());
      }
    }
  }
  for (name, bytes) in files.iter() {
    let p = root.join(name);
    let same = std::fs::metadata(&p).map(|m| m.len() == bytes.len() as u64).unwrap_or(false) && std::fs::read(&p).map(|b| &b == bytes).unwrap_or(false);
    if !same {
      let _ = std::fs::write(&p, bytes);
    }
  }
}

#[derive(Clone, Debug)]
struct Trial {
  file: String,
  what: String,
  bytes: Vec<u8>,
}

fn trials_of(case: &Case, files: &BTreeMap<String, Vec<u8>>) -> Vec<Trial> {
  let names: Vec<&String> = files.keys().collect();
  let mut out = Vec::new();
  if let Some(snap) = &case.snapshot {
    return vec![Trial { file: snap.trial.0.clone(), what: snap.trial.1.clone(), bytes: unhex(&snap.trial.2) }];
  }
  if case.exhaustive {
    for name in names.iter() {
      let orig = &files[*name];
      for off in 0..orig.len() {
        for mask in [0x01u8, 0x80, 0xff, 0x20] {
          let mut b = orig.clone();
          b[off] ^= mask;
          out.push(Trial { file: (*name).clone(), what: format!("byte {off} ^= {mask:#04x}"), bytes: b });
        }
      }
      for len in 0..orig.len() {
        out.push(Trial { file: (*name).clone(), what: format!("truncated to {len} of {} bytes", orig.len()), bytes: orig[..len].to_vec() });
      }
    }
    return out;
  }
  for c in case.corruptions.iter() {
    let (sel, rest) = match c {
      Corruption::Flip(f, ..) | Corruption::Truncate(f, ..) | Corruption::Stamp(f, ..) => (*f as usize, c),
    };
    let name = names[(sel * names.len()) >> 16];
    let orig = &files[name];
    if orig.is_empty() {
      continue;
    }
    match rest {
      Corruption::Flip(_, o, mask) => {
        let off = ((*o as u64 * orig.len() as u64) >> 32) as usize;
        let mask = if *mask == 0 { 1 } else { *mask };
        let mut b = orig.clone();
        b[off] ^= mask;
        out.push(Trial { file: name.clone(), what: format!("byte {off} ^= {mask:#04x}"), bytes: b });
      }
      Corruption::Truncate(_, l) => {
        let len = ((*l as u64 * orig.len() as u64) >> 32) as usize;
        out.push(Trial { file: name.clone(), what: format!("truncated to {len} of {} bytes", orig.len()), bytes: orig[..len].to_vec() });
      }
      Corruption::Stamp(_, o, which) => {
        let off = ((*o as u64 * orig.len() as u64) >> 32) as usize;
        let val: [u8; 4] = match which % 5 {
          0 => [0xff, 0xff, 0xff, 0xff],
          1 => [0xff, 0xff, 0xff, 0x7f],
          2 => [0, 0, 0, 0],
          3 => [0xff, 0xff, 0xff, 0x0f],
          _ => [0x80, 0x80, 0x80, 0x80],
        };
        let mut b = orig.clone();
        for (k, v) in val.iter().enumerate() {
          if off + k < b.len() {
            b[off + k] = *v;
          }
        }
        if &b != orig {
          out.push(Trial { file: name.clone(), what: format!("bytes {off}..{} := {val:02x?}", off + 4), bytes: b });
        }
      }
    }
  }
  out
}

impl Property for C17 {
  type Case = Case;
  const ID: &'static str = "C17";
  const LEVEL: &'static str = "fault_enumeration";
  fn rule() -> String {
    "cases = a small filesystem index (6-30 documents, 1-3 segments, tombstones, 0-4 queued operations left in wal.log by a dropped writer) and corruptions of its files: single-byte xor at a generated offset, truncation to a generated length, 4-byte extreme stamps (quick: 60 per index; thorough also enumerates, for small indexes, EVERY byte x 4 masks and EVERY truncation length of EVERY file). Oracle per corruption: Index::open -> reader -> a battery of 5 searches (stored fields, scores, prefix/phrase, filter+sort+aggregations) either fails with an error or returns exactly the baseline; for wal.log additionally a new writer + commit yields the committed contents plus an in-order prefix of the queued operations; never a panic, abort or hang. Non-trivial = the corrupted byte changed the outcome (the open/search failed) or lies in wal.log; counted per corruption; distinct = hash of (file kind, corruption, file content)".into()
  }
  fn assumptions() -> Vec<String> {
    vec![
      "a corruption after which every observable result equals the baseline (insignificant byte: JSON whitespace, an unused field) is not a violation - the statement allows 'error' or 'same results'".into(),
      "files are corrupted one at a time; removing a file is not part of the statement".into(),
    ]
  }
  fn plan(tier: Tier) -> Plan {
    Plan { workers: 16, cases_per_worker: tier.pick(150, 400) }
  }
  fn shrink_iters() -> u32 {
    300
  }
  fn isolate() -> bool {
    true
  }
  fn exhaustive(tier: Tier) -> bool {
    tier == Tier::Thorough
  }
  fn strategy(tier: Tier) -> BoxedStrategy<Case> {
    let world = scoreworld::world(WorldOpts { min_docs: 6, max_docs: 30, max_commits: 3, deletes: true, ties: true, vocab: 10 });
    let small = scoreworld::world(WorldOpts { min_docs: 3, max_docs: 6, max_commits: 2, deletes: true, ties: true, vocab: 6 });
    let body = select(vec![json!({"body": "rust fox", "tag": "red", "year": 2}), json!({"body": "new search engine", "title": "rust", "cat": "blue", "price": 1.5, "rank": 7}), json!({"body": ""})]).prop_map(|v| v.as_object().cloned().unwrap());
    let pending = vec(prop_oneof![3 => (0usize..40, body).prop_map(|(i, b)| Pending::Add(i, b)), 1 => (0usize..40).prop_map(Pending::Del)], 0..5);
    let corruption = prop_oneof![
      5 => (any::<u16>(), any::<u32>(), select(vec![0x01u8, 0x80, 0xff, 0x20, 0x04, 0x40])).prop_map(|(f, o, m)| Corruption::Flip(f, o, m)),
      2 => (any::<u16>(), any::<u32>()).prop_map(|(f, l)| Corruption::Truncate(f, l)),
      2 => (any::<u16>(), any::<u32>(), any::<u8>()).prop_map(|(f, o, w)| Corruption::Stamp(f, o, w)),
    ];
    let sampled = (world, pending.clone(), vec(corruption, 60)).prop_map(|(world, pending, corruptions)| Case { world, pending, corruptions, exhaustive: false, snapshot: None });
    if tier == Tier::Thorough {
      let full = (small, pending).prop_map(|(world, pending)| Case { world, pending, corruptions: vec![], exhaustive: true, snapshot: None });
      prop_oneof![3 => sampled, 1 => full].boxed()
    } else {
      sampled.boxed()
    }
  }
  fn run(case: &Case, ctx: &Ctx) -> Outcome {
    let mut out = Outcome::new();
    let built = match build(case) {
      Ok(b) => b,
      Err(e) => {
        out.evals = 1;
        out.fail("index-build-failed", format!("{e:#}"));
        return out;
      }
    };
    let n = case.world.docs.len() + 5;
    let baseline = match battery(&built.opts, &built.root, n) {
      Ok(b) => b,
      Err(e) => {
        out.evals = 1;
        out.fail("baseline-failed", format!("uncorrupted index cannot be searched: {e:#}"));
        return out;
      }
    };
    // allowed states after WAL recovery: committed + prefix of the queued operations
    let schema = scoreworld::schema();
    let mut allowed: Vec<BTreeMap<String, Option<Value>>> = Vec::new();
    for j in 0..=built.pending.len() {
      let mut s = built.committed.clone();
      apply_ops(&mut s, &built.pending[..j]);
      allowed.push(s.iter().map(|(k, d)| (k.clone(), normal(&stored_projection(&schema, d)))).collect());
    }
    let self_contained = |t: &Trial| -> Option<Value> {
      let mut c = case.clone();
      c.corruptions.clear();
      c.exhaustive = false;
      c.snapshot = Some(Snapshot { root: built.root.display().to_string(), files: built.files.iter().map(|(k, v)| (k.clone(), hex(v))).collect(), trial: (t.file.clone(), t.what.clone(), hex(&t.bytes)) });
      serde_json::to_value(&c).ok()
    };
    let trials = trials_of(case, &built.files);
    out.class(format!("segments:{}", built.files.keys().filter(|k| k.ends_with(".meta")).count()));
    if !built.pending.is_empty() {
      out.class("wal-non-empty");
    }
    for t in trials.iter() {
      out.evals += 1;
      let kind = file_kind(&t.file);
      note_inflight(&format!("{} {}", t.file, t.what));
      let path = built.root.join(&t.file);
      if std::fs::write(&path, &t.bytes).is_err() {
        continue;
      }
      let _ = take_last_panic();
      let res = catch_unwind(AssertUnwindSafe(|| battery(&built.opts, &built.root, n)));
      let describe = || format!("{} ({kind}): {}", t.file, t.what);
      match res {
        Err(_) => {
          let (loc, msg) = take_last_panic().unwrap_or(("unknown".into(), "panic".into()));
          out.fail(sanitize_sig(&format!("panic:{kind}:{loc}")), format!("open/search panicked at {loc}: {msg} after corrupting {}", describe()));
          out.replay_override = self_contained(t);
          restore(&built.root, &built.files);
          return out;
        }
        Ok(Err(_)) => {
          out.class(format!("detected:{kind}"));
          out.nontrivial(fingerprint(&(kind.clone(), t.what.clone(), fingerprint(&built.files[&t.file]))));
        }
        Ok(Ok(got)) => {
          if got != baseline {
            let mut sig = format!("silent-difference:{kind}");
            if sig == SIG_MANIFEST_SILENT {
              // the manifest carries no checksum (listed finding); which member the altered byte belongs to is part
              // of the signature, so that only the members listed in known_findings.txt are excused
              sig = format!("{SIG_MANIFEST_SILENT}@{}", manifest_diff_path(&built.files[&t.file], &t.bytes));
            }
            let debug_collect = sig.starts_with(SIG_MANIFEST_SILENT) && std::env::var("VERIF_DEBUG_C17").is_ok();
            if debug_collect {
              eprintln!("C17-MANIFEST-SIG {sig}");
            }
            if sig.starts_with(SIG_MANIFEST_SILENT) && (ctx.is_known(Self::ID, &sig) || debug_collect) {
              out.excluded_known += 1;
              out.fail(sig, format!("results differ silently after corrupting {}", describe()));
            } else {
              // say where the first difference is
              let diff = (0..5).find(|i| got[*i] != baseline[*i]).unwrap_or(0);
              out.fail(sig, format!("open and search succeed but search #{diff} differs after corrupting {}: got {} baseline {}", describe(), crate::engine::truncate_value(got[diff].clone(), 600), crate::engine::truncate_value(baseline[diff].clone(), 600)));
              out.replay_override = self_contained(t);
              restore(&built.root, &built.files);
              return out;
            }
          } else {
            out.class(format!("harmless:{kind}"));
          }
        }
      }
      if t.file == "wal.log" {
        let _ = take_last_panic();
        let res = catch_unwind(AssertUnwindSafe(|| recover_and_commit(&built.opts, &built.root, n)));
        match res {
          Err(_) => {
            let (loc, msg) = take_last_panic().unwrap_or(("unknown".into(), "panic".into()));
            out.fail(sanitize_sig(&format!("panic:wal-recovery:{loc}")), format!("writer()/commit panicked at {loc}: {msg} after corrupting {}", describe()));
            restore(&built.root, &built.files);
            return out;
          }
          Ok(Err(_)) => {
            out.class("wal-recovery-error");
            out.nontrivial(fingerprint(&(kind.clone(), t.what.clone(), fingerprint(&built.files[&t.file]))));
          }
          Ok(Ok(got)) => {
            let got: BTreeMap<String, Option<Value>> = got.iter().map(|(k, v)| (k.clone(), normal(v))).collect();
            match allowed.iter().position(|a| *a == got) {
              Some(j) => {
                out.class(if j == built.pending.len() { "wal-recovered-all" } else { "wal-recovered-prefix" });
                out.nontrivial(fingerprint(&(kind.clone(), t.what.clone(), fingerprint(&built.files[&t.file]))));
              }
              None => {
                out.fail("wal-recovery-not-a-prefix", format!("after corrupting {} a new writer + commit gives ids {:?}; allowed are the committed contents plus an in-order prefix of the {} queued operations {:?}", describe(), got.keys().collect::<Vec<_>>(), built.pending.len(), built.pending.iter().map(|o| match o { QOp::Add(i, _) => format!("add {i}"), QOp::Del(i) => format!("del {i}") }).collect::<Vec<_>>()));
                out.replay_override = self_contained(t);
                restore(&built.root, &built.files);
                return out;
              }
            }
          }
        }
        restore(&built.root, &built.files);
      } else {
        // reads never modify the directory: put the one file back
        let _ = std::fs::write(&path, &built.files[&t.file]);
      }
    }
    if case.snapshot.is_some() {
      let _ = std::fs::remove_dir_all(&built.root);
    }
    drop(built.scratch);
    out
  }
}
