#!/bin/bash
# tools/sens.sh <ID> — run every sensitivity patch for a property; a patch counts as caught if the check exits 1.
ID="$1"
cd /verif
for m in sensitivity/$ID/*.diff; do
  res=$(tools/mut.sh "$m" "$ID" 2>/dev/null | grep -E "signature:|exit=" | tr '\n' ' ')
  echo "$(basename $m): $res"
done
rm -rf "/verif/replays/$ID"
./check "$ID" >/dev/null 2>&1  # regenerate the evidence file on the unchanged tree
git -C /repo status --short
