//! Reference filter evaluator over raw JSON documents (documented semantics, README "Filters").
use serde_json::{Map, Value};

use crate::gen::{NestedSpec, PropSpec, SchemaSpec};
use crate::model::Kind;

pub fn ci_eq(a: &str, b: &str) -> bool {
  a.to_lowercase() == b.to_lowercase()
}

#[derive(Clone, Copy)]
pub enum Scope<'a> {
  Root(&'a Map<String, Value>),
  Obj(&'a Map<String, Value>, &'a NestedSpec),
}

fn scalars(v: Option<&Value>) -> Vec<&Value> {
  match v {
    None | Some(Value::Null) => Vec::new(),
    Some(Value::Array(a)) => a.iter().collect(),
    Some(x) => vec![x],
  }
}

fn objects(v: Option<&Value>) -> Vec<&Map<String, Value>> {
  match v {
    Some(Value::Object(m)) => vec![m],
    Some(Value::Array(a)) => a.iter().filter_map(|x| x.as_object()).collect(),
    _ => Vec::new(),
  }
}

/// (kind, fast) of a leaf named `name` inside `n`
fn prop_leaf(n: &NestedSpec, name: &str) -> Option<(Kind, bool)> {
  n.props.iter().find(|p| p.name() == name).and_then(|p| match p {
    PropSpec::Keyword(k) => Some((Kind::Keyword, k.fast)),
    PropSpec::Numeric(x) => Some((if x.i64 { Kind::I64 } else { Kind::F64 }, x.fast)),
    PropSpec::Text(_) => Some((Kind::Text, false)),
    PropSpec::Object(_) => None,
  })
}

fn child_spec<'a>(n: &'a NestedSpec, name: &str) -> Option<&'a NestedSpec> {
  n.props.iter().find_map(|p| match p {
    PropSpec::Object(o) if o.name == name => Some(o),
    _ => None,
  })
}

/// All values of a leaf addressed from the document root, either a top-level field or a dotted
/// path through nested objects ("flattened" addressing: any object along the path contributes).
fn root_leaf_values<'a>(schema: &'a SchemaSpec, doc: &'a Map<String, Value>, field: &str, want: Kind) -> Vec<&'a Value> {
  if !field.contains('.') {
    let ok = match want {
      Kind::Keyword => schema.keyword.iter().any(|k| k.name == field && k.fast),
      Kind::I64 => schema.numeric.iter().any(|n| n.name == field && n.fast && n.i64),
      Kind::F64 => schema.numeric.iter().any(|n| n.name == field && n.fast && !n.i64),
      Kind::Text => false,
    };
    if !ok {
      return Vec::new();
    }
    return scalars(doc.get(field));
  }
  let parts: Vec<&str> = field.split('.').collect();
  let Some(mut spec) = schema.nested.iter().find(|n| n.name == parts[0]) else { return Vec::new() };
  let mut objs: Vec<&Map<String, Value>> = objects(doc.get(parts[0]));
  for seg in &parts[1..parts.len() - 1] {
    let Some(c) = child_spec(spec, seg) else { return Vec::new() };
    spec = c;
    objs = objs.into_iter().flat_map(|o| objects(o.get(*seg))).collect();
  }
  let leaf = parts[parts.len() - 1];
  match prop_leaf(spec, leaf) {
    Some((k, true)) if k == want => objs.into_iter().flat_map(|o| scalars(o.get(leaf))).collect(),
    _ => Vec::new(),
  }
}

fn leaf_values<'a>(schema: &'a SchemaSpec, scope: Scope<'a>, field: &str, want: Kind) -> Vec<&'a Value> {
  match scope {
    Scope::Root(doc) => root_leaf_values(schema, doc, field, want),
    Scope::Obj(o, spec) => match prop_leaf(spec, field) {
      Some((k, true)) if k == want => scalars(o.get(field)),
      _ => Vec::new(),
    },
  }
}

fn nested_objects<'a>(schema: &'a SchemaSpec, scope: Scope<'a>, path: &str) -> Option<(Vec<&'a Map<String, Value>>, &'a NestedSpec)> {
  match scope {
    Scope::Root(doc) => {
      let parts: Vec<&str> = path.split('.').collect();
      let mut spec = schema.nested.iter().find(|n| n.name == parts[0])?;
      let mut objs = objects(doc.get(parts[0]));
      for seg in &parts[1..] {
        spec = child_spec(spec, seg)?;
        objs = objs.into_iter().flat_map(|o| objects(o.get(*seg))).collect();
      }
      Some((objs, spec))
    }
    Scope::Obj(o, spec) => {
      let c = child_spec(spec, path)?;
      Some((objects(o.get(path)), c))
    }
  }
}

pub fn eval(schema: &SchemaSpec, f: &Value, scope: Scope<'_>) -> bool {
  let Some(m) = f.as_object() else { return false };
  let Some((tag, body)) = m.iter().next() else { return false };
  match tag.as_str() {
    "KeywordEq" => {
      let field = body["field"].as_str().unwrap_or("");
      let value = body["value"].as_str().unwrap_or("");
      leaf_values(schema, scope, field, Kind::Keyword).iter().any(|v| v.as_str().map(|s| ci_eq(s, value)).unwrap_or(false))
    }
    "KeywordIn" => {
      let field = body["field"].as_str().unwrap_or("");
      let values: Vec<&str> = body["values"].as_array().map(|a| a.iter().filter_map(|x| x.as_str()).collect()).unwrap_or_default();
      leaf_values(schema, scope, field, Kind::Keyword).iter().any(|v| v.as_str().map(|s| values.iter().any(|t| ci_eq(s, t))).unwrap_or(false))
    }
    "I64Range" => {
      let field = body["field"].as_str().unwrap_or("");
      let (min, max) = (body["min"].as_i64().unwrap_or(0), body["max"].as_i64().unwrap_or(0));
      leaf_values(schema, scope, field, Kind::I64).iter().any(|v| v.as_i64().map(|x| x >= min && x <= max).unwrap_or(false))
    }
    "F64Range" => {
      let field = body["field"].as_str().unwrap_or("");
      let (min, max) = (body["min"].as_f64().unwrap_or(0.0), body["max"].as_f64().unwrap_or(0.0));
      leaf_values(schema, scope, field, Kind::F64).iter().any(|v| v.as_f64().map(|x| x >= min && x <= max).unwrap_or(false))
    }
    "Nested" => {
      let path = body["path"].as_str().unwrap_or("");
      let inner = &body["filter"];
      match nested_objects(schema, scope, path) {
        Some((objs, spec)) => objs.into_iter().any(|o| eval(schema, inner, Scope::Obj(o, spec))),
        None => false,
      }
    }
    "And" => {
      let children: Vec<&Value> = body.as_array().map(|a| a.iter().collect()).unwrap_or_default();
      // sibling Nested clauses on one path bind to the same object
      let mut groups: Vec<(String, Vec<&Value>)> = Vec::new();
      for c in children.iter() {
        if let Some(n) = c.get("Nested") {
          let p = n["path"].as_str().unwrap_or("").to_string();
          if let Some(g) = groups.iter_mut().find(|g| g.0 == p) {
            g.1.push(&n["filter"]);
          } else {
            groups.push((p, vec![&n["filter"]]));
          }
        } else if !eval(schema, c, scope) {
          return false;
        }
      }
      for (path, inners) in groups {
        let ok = match nested_objects(schema, scope, &path) {
          Some((objs, spec)) => objs.into_iter().any(|o| {
            // the group's inner filters form an And evaluated at that object (recursively grouped)
            let and = Value::Object([("And".to_string(), Value::Array(inners.iter().map(|x| (*x).clone()).collect()))].into_iter().collect());
            eval(schema, &and, Scope::Obj(o, spec))
          }),
          None => false,
        };
        if !ok {
          return false;
        }
      }
      true
    }
    "Or" => body.as_array().map(|a| a.iter().any(|c| eval(schema, c, scope))).unwrap_or(false),
    "Not" => !eval(schema, body, scope),
    _ => false,
  }
}

pub fn passes(schema: &SchemaSpec, filter: &Value, doc: &Value) -> bool {
  match doc.as_object() {
    Some(m) => eval(schema, filter, Scope::Root(m)),
    None => false,
  }
}

/// Nested paths (dotted, from the root) that a filter's Nested clauses traverse below depth 1.
pub fn deep_nested_paths(f: &Value, base: &str, out: &mut Vec<String>) {
  let Some(m) = f.as_object() else { return };
  let Some((tag, body)) = m.iter().next() else { return };
  match tag.as_str() {
    "Nested" => {
      let p = body["path"].as_str().unwrap_or("");
      let full = if base.is_empty() { p.to_string() } else { format!("{base}.{p}") };
      if full.contains('.') && !out.contains(&full) {
        out.push(full.clone());
      }
      deep_nested_paths(&body["filter"], &full, out);
    }
    "And" | "Or" => {
      if let Some(a) = body.as_array() {
        for c in a {
          deep_nested_paths(c, base, out);
        }
      }
    }
    "Not" => deep_nested_paths(body, base, out),
    _ => {}
  }
}

/// Does the document hold, for the dotted child path, at least two parent objects that each
/// carry a (non-null) value under the child key? (the shape behind known finding C08 #1)
pub fn multi_parent_children(doc: &Value, path: &str) -> bool {
  let parts: Vec<&str> = path.split('.').collect();
  if parts.len() < 2 {
    return false;
  }
  let Some(m) = doc.as_object() else { return false };
  let mut objs = objects(m.get(parts[0]));
  for seg in &parts[1..parts.len() - 1] {
    objs = objs.into_iter().flat_map(|o| objects(o.get(*seg))).collect();
  }
  let last = parts[parts.len() - 1];
  objs.iter().filter(|o| o.get(last).map(|v| !v.is_null()).unwrap_or(false)).count() >= 2
}
