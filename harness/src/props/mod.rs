pub mod c04;
pub mod c15;
