#!/bin/bash
# tools/senswt.sh <ID> — like sens.sh but through the scratch worktree (tools/mutwt.sh), leaving /repo alone.
ID="$1"
cd /verif
for m in sensitivity/$ID/*.diff; do
  res=$(tools/mutwt.sh "$m" "$ID" 2>/dev/null | grep -E "signature:|exit=|KNOWN-FINDING" | sort -u | tr '\n' ' ' | cut -c1-300)
  echo "$(basename $m): $res"
done
