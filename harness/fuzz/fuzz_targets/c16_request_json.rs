//! C16, coverage-guided tier: any byte string that deserializes as a SearchRequest is searched on a
//! small in-memory index; a panic, abort or timeout is a crash (libFuzzer saves the input).
#![no_main]
use std::sync::OnceLock;

use libfuzzer_sys::fuzz_target;
use searchlite_core::api::types::{Document, IndexOptions, SearchRequest};
use searchlite_core::api::{Index, IndexReader};
use searchlite_core::storage::InMemoryStorage;
use serde_json::json;

struct Pool(IndexReader);
// the reader is only ever used from libFuzzer's single thread
unsafe impl Sync for Pool {}
unsafe impl Send for Pool {}

static POOL: OnceLock<Pool> = OnceLock::new();

fn pool() -> &'static Pool {
  POOL.get_or_init(|| {
    let schema = json!({
      "doc_id_field": "_id", "analyzers": [],
      "text_fields": [
        {"name": "body", "analyzer": "default", "stored": true, "indexed": true, "nullable": false},
        {"name": "title", "analyzer": "default", "stored": true, "indexed": true, "nullable": false}],
      "keyword_fields": [
        {"name": "tag", "stored": true, "indexed": true, "fast": true, "nullable": false},
        {"name": "cat", "stored": true, "indexed": true, "fast": true, "nullable": false}],
      "numeric_fields": [
        {"name": "year", "i64": true, "fast": true, "stored": true, "nullable": false},
        {"name": "price", "i64": false, "fast": true, "stored": true, "nullable": false},
        {"name": "rank", "i64": true, "fast": true, "stored": true, "nullable": false}],
      "nested_fields": []
    });
    let root = std::path::PathBuf::from("/fuzz-pool/idx");
    let opts: IndexOptions = serde_json::from_value(json!({"path": root, "create_if_missing": false, "enable_positions": true, "bm25_k1": 1.2, "bm25_b": 0.75, "storage": "InMemory"})).unwrap();
    let storage = std::sync::Arc::new(InMemoryStorage::new(root.clone()));
    let idx = Index::create_with_storage(&root, serde_json::from_value(schema).unwrap(), opts, storage).unwrap();
    let words = ["rust", "ruby", "rubber", "search", "engine", "fast", "quick", "brown", "fox", "the", "runs", "run"];
    let tags = ["red", "green", "blue", "x", "y"];
    let mut w = idx.writer().unwrap();
    for i in 0..40usize {
      let body: Vec<&str> = (0..(i % 5)).map(|k| words[(i * 7 + k * 3) % words.len()]).collect();
      let mut d = json!({"_id": format!("d{i:05}"), "body": body.join(" "), "title": words[i % words.len()], "year": (i % 4) as i64, "price": (i % 6) as f64 * 0.5, "rank": (i % 17) as i64});
      if i % 3 != 0 {
        d["tag"] = json!(tags[i % tags.len()]);
      }
      if i % 4 != 1 {
        d["cat"] = json!(tags[i % 3]);
      }
      let fields = d.as_object().unwrap().iter().map(|(k, v)| (k.clone(), v.clone())).collect();
      w.add_document(&Document { fields }).unwrap();
      if i == 13 || i == 27 {
        w.commit().unwrap();
      }
    }
    w.commit().unwrap();
    w.delete_documents(&["d00003".to_string(), "d00020".to_string()]).unwrap();
    w.commit().unwrap();
    let reader = idx.reader().unwrap();
    std::mem::forget(idx);
    Pool(reader)
  })
}

fuzz_target!(|data: &[u8]| {
  let Ok(req) = serde_json::from_slice::<SearchRequest>(data) else { return };
  let _ = pool().0.search(&req);
});
