//! Baton-passing scheduler for real threads, driven by the hook points in searchlite-core
//! (`verif::point`, `verif::lock_wait`): exactly one registered thread runs at a time; at every hook
//! point the generated plan decides whether another thread gets the baton.
use std::sync::{Arc, Condvar, Mutex};
use std::time::Duration;

use searchlite_core::verif::Sched;
use serde::{Deserialize, Serialize};

#[derive(Clone, Copy, Debug, PartialEq, Eq)]
enum St {
  Waiting, // parked: not started yet, or at a point after handing the baton on
  Running,
  Blocked, // wants a lock that was taken when it last looked
  Done,
}

/// The generated part of a schedule.
#[derive(Clone, Debug, Default, Serialize, Deserialize)]
pub struct SchedulePlan {
  /// (decision number, thread) - at that decision the baton goes to that thread if it can run
  pub switches: Vec<(u16, u8)>,
  /// preference order used whenever the running thread blocks or finishes
  pub prio: Vec<u8>,
  /// switch at every n-th decision to the next thread in `prio` (0 = never): dense interleavings
  pub every: u8,
}

struct State {
  status: Vec<St>,
  current: usize,
  decisions: u64,
  plan: SchedulePlan,
  /// global, totally ordered log: (thread, text)
  log: Vec<(usize, String)>,
  /// forced switches that were taken while the source thread was inside a call (label of the point)
  switched_at: Vec<(usize, String)>,
  stuck: bool,
  free: bool,
}

pub struct Baton {
  state: Mutex<State>,
  cv: Condvar,
}

const NONE: usize = usize::MAX;
const PATIENCE: Duration = Duration::from_secs(20);

impl Baton {
  pub fn new(threads: usize, plan: SchedulePlan) -> Arc<Baton> {
    Arc::new(Baton {
      state: Mutex::new(State { status: vec![St::Waiting; threads], current: NONE, decisions: 0, plan, log: Vec::new(), switched_at: Vec::new(), stuck: false, free: false }),
      cv: Condvar::new(),
    })
  }

  fn order(st: &State) -> Vec<usize> {
    let n = st.status.len();
    let mut out: Vec<usize> = st.plan.prio.iter().map(|p| *p as usize % n).collect();
    for i in 0..n {
      out.push(i);
    }
    let mut seen = vec![false; n];
    out.retain(|i| !std::mem::replace(&mut seen[*i], true));
    out
  }

  /// next thread to run other than `me`: first a parked one, else a blocked one (it re-checks its lock)
  fn pick_other(st: &State, me: usize) -> Option<usize> {
    let order = Self::order(st);
    order.iter().copied().find(|t| *t != me && st.status[*t] == St::Waiting).or_else(|| order.iter().copied().find(|t| *t != me && st.status[*t] == St::Blocked))
  }

  fn wait_for_turn(&self, mut st: std::sync::MutexGuard<'_, State>, me: usize) {
    while st.current != me && !st.free {
      let (g, to) = self.cv.wait_timeout(st, PATIENCE).unwrap();
      st = g;
      if to.timed_out() && st.current != me {
        // give up scheduling: let everybody run so that the case can end; it is reported as inconclusive
        st.stuck = true;
        st.free = true;
        self.cv.notify_all();
      }
    }
    st.status[me] = St::Running;
  }

  /// Start everything: the first thread in preference order gets the baton.
  pub fn start(&self) {
    let mut st = self.state.lock().unwrap();
    let first = Self::order(&st).into_iter().find(|t| st.status[*t] == St::Waiting);
    st.current = first.unwrap_or(NONE);
    self.cv.notify_all();
  }

  pub fn enter(&self, me: usize) {
    let st = self.state.lock().unwrap();
    self.wait_for_turn(st, me);
  }

  pub fn finish(&self, me: usize) {
    let mut st = self.state.lock().unwrap();
    st.status[me] = St::Done;
    st.current = Self::pick_other(&st, me).unwrap_or(NONE);
    self.cv.notify_all();
  }

  pub fn log(&self, me: usize, text: String) {
    self.state.lock().unwrap().log.push((me, text));
  }

  pub fn take_log(&self) -> (Vec<(usize, String)>, Vec<(usize, String)>, bool) {
    let st = self.state.lock().unwrap();
    (st.log.clone(), st.switched_at.clone(), st.stuck)
  }

  fn point(&self, me: usize, label: &'static str) {
    let mut st = self.state.lock().unwrap();
    if st.free {
      return;
    }
    let d = st.decisions;
    st.decisions += 1;
    st.log.push((me, format!("@{label}")));
    let n = st.status.len();
    let mut target: Option<usize> = st.plan.switches.iter().find(|(k, _)| *k as u64 == d).map(|(_, t)| *t as usize % n);
    if target.is_none() && st.plan.every > 0 && d % st.plan.every as u64 == st.plan.every as u64 - 1 {
      target = Self::pick_other(&st, me);
    }
    if let Some(t) = target {
      if t != me && matches!(st.status[t], St::Waiting | St::Blocked) {
        st.status[me] = St::Waiting;
        st.current = t;
        st.switched_at.push((me, label.to_string()));
        self.cv.notify_all();
        self.wait_for_turn(st, me);
      }
    }
  }

  fn blocked(&self, me: usize, label: &'static str) {
    let mut st = self.state.lock().unwrap();
    if st.free {
      drop(st);
      std::thread::yield_now();
      return;
    }
    st.log.push((me, format!("~{label}")));
    match Self::pick_other(&st, me) {
      Some(t) => {
        st.status[me] = St::Blocked;
        st.current = t;
        self.cv.notify_all();
        self.wait_for_turn(st, me);
      }
      None => {
        // nobody else can run: whoever held the lock is gone or it is held outside the schedule
        drop(st);
        std::thread::yield_now();
      }
    }
  }
}

/// The per-thread handle installed into searchlite-core's hook.
pub struct Handle {
  pub baton: Arc<Baton>,
  pub me: usize,
}

impl Sched for Handle {
  fn point(&self, label: &'static str) {
    self.baton.point(self.me, label)
  }
  fn blocked(&self, label: &'static str) {
    self.baton.blocked(self.me, label)
  }
}
