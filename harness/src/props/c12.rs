//! C12 — aggregations are exact and independent of segmentation.
use std::collections::BTreeMap;

use proptest::collection::vec;
use proptest::prelude::*;
use proptest::sample::select;
use serde::{Deserialize, Serialize};
use serde_json::{json, Value};

use crate::amodel::{AggModel, Doc};
use crate::engine::{fingerprint_json, Ctx, Outcome, Plan, Property, Tier};
use crate::props::c08;
use crate::props::c13::json_close;
use crate::scoreworld::{self, World, WorldOpts};
use crate::sut;

#[derive(Clone, Debug, Serialize, Deserialize)]
pub struct Case {
  pub world: World,
  /// alternative commit layouts of the same documents (weights, normalised like World.commits)
  pub layouts: Vec<Vec<usize>>,
  pub filter: Option<Value>,
  pub aggs: Vec<Value>,
}

pub struct C12;

pub const SIG_TERMS_LIMITS: &str = "bucket-limits-applied-per-segment";
pub const SIG_TOP_HITS_FROM: &str = "top-hits-from-applied-per-segment";

const KW: &[&str] = &["tag", "cat"];
const NUM: &[&str] = &["year", "price", "rank"];

fn metric() -> BoxedStrategy<Value> {
  prop_oneof![
    (select(vec!["stats", "extended_stats", "value_count"]), select(NUM.to_vec()), proptest::option::weighted(0.3, 0i64..3)).prop_map(|(t, f, m)| {
      let mut v = json!({"type": t, "field": f});
      if let Some(m) = m {
        v["missing"] = json!(m);
      }
      v
    }),
    (select(vec!["tag", "cat", "year", "price", "rank"]), any::<bool>()).prop_map(|(f, m)| {
      let mut v = json!({"type": "cardinality", "field": f});
      if m {
        v["missing"] = if f == "tag" || f == "cat" { json!("zz") } else { json!(77) };
      }
      v
    }),
    (select(NUM.to_vec()), proptest::option::of(vec(select(vec![0.0f64, 10.0, 25.0, 50.0, 75.0, 90.0, 100.0]), 1..4))).prop_map(|(f, p)| {
      let mut v = json!({"type": "percentiles", "field": f});
      if let Some(p) = p {
        v["percents"] = json!(p);
      }
      v
    }),
    (select(NUM.to_vec()), vec(select(vec![0.0f64, 1.0, 2.0, 2.5, 10.0]), 1..3)).prop_map(|(f, vals)| json!({"type": "percentile_ranks", "field": f, "values": vals})),
    (1usize..4, 0usize..3, scoreworld::sort_plan(2)).prop_map(|(size, from, sort)| json!({"type": "top_hits", "size": size, "from": from, "sort": sort})),
  ]
  .boxed()
}

pub fn agg_tree(depth: usize) -> BoxedStrategy<Value> {
  if depth == 0 {
    return metric();
  }
  let sub = || proptest::option::weighted(0.5, agg_tree(depth - 1));
  let with_sub = |mut v: Value, s: Option<Value>| {
    if let Some(s) = s {
      v["aggs"] = json!({"s": s});
    }
    v
  };
  prop_oneof![
    3 => metric(),
    4 => (select(KW.to_vec()), proptest::option::of(1usize..4), proptest::option::weighted(0.4, 0u64..4), proptest::option::weighted(0.3, Just("none")), sub()).prop_map(move |(f, size, mdc, missing, s)| {
      let mut v = json!({"type": "terms", "field": f});
      if let Some(x) = size { v["size"] = json!(x); }
      if let Some(x) = mdc { v["min_doc_count"] = json!(x); }
      if let Some(x) = missing { v["missing"] = json!(x); }
      with_sub(v, s)
    }),
    2 => (select(KW.to_vec()), proptest::option::of(1u64..4), proptest::option::of(1usize..4), sub()).prop_map(move |(f, mdc, size, s)| {
      let mut v = json!({"type": "rare_terms", "field": f});
      if let Some(x) = mdc { v["max_doc_count"] = json!(x); }
      if let Some(x) = size { v["size"] = json!(x); }
      with_sub(v, s)
    }),
    2 => (select(NUM.to_vec()), any::<bool>(), proptest::option::weighted(0.3, Just(0.8f64)), sub()).prop_map(move |(f, keyed, missing, s)| {
      // bounds never coincide with a data value (multiples of 0.25): end-point inclusivity is not documented
      let mut v = json!({"type": "range", "field": f, "keyed": keyed, "ranges": [{"to": 0.9}, {"from": 0.9, "to": 2.6}, {"key": "big", "from": 2.6}, {"key": "all"}]});
      if let Some(m) = missing { v["missing"] = json!(m); }
      with_sub(v, s)
    }),
    3 => (select(NUM.to_vec()), select(vec![0.5f64, 1.0, 2.0, 3.0]), proptest::option::weighted(0.3, select(vec![0.0f64, 0.25, 1.0])), proptest::option::weighted(0.4, 0u64..3), proptest::option::weighted(0.3, Just((-1.0f64, 4.0f64))), proptest::option::weighted(0.2, Just((0.0f64, 3.0f64))), proptest::option::weighted(0.2, Just(1.5f64)), sub()).prop_map(move |(f, interval, offset, mdc, eb, hb, missing, s)| {
      let mut v = json!({"type": "histogram", "field": f, "interval": interval});
      if let Some(x) = offset { v["offset"] = json!(x); }
      if let Some(x) = mdc { v["min_doc_count"] = json!(x); }
      if let Some((lo, hi)) = hb {
        v["hard_bounds"] = json!({"min": lo, "max": hi});
        if eb.is_some() { v["extended_bounds"] = json!({"min": 0.5, "max": 2.5}); }
      } else if let Some((lo, hi)) = eb {
        v["extended_bounds"] = json!({"min": lo, "max": hi});
      }
      if let Some(x) = missing { v["missing"] = json!(x); }
      with_sub(v, s)
    }),
    1 => (c08::root_filter(&scoreworld::schema(), 1), sub()).prop_map(move |(f, s)| with_sub(json!({"type": "filter", "filter": f}), s)),
    // kinds compared across layouts only (no reference computation here): composite, date_histogram, date_range
    1 => (select(KW.to_vec()), select(NUM.to_vec()), any::<bool>(), sub()).prop_map(move |(k, n, two, s)| {
      let mut sources = vec![json!({"type": "terms", "name": "k", "field": k})];
      if two {
        sources.push(json!({"type": "histogram", "name": "h", "field": n, "interval": 1.0}));
      }
      with_sub(json!({"type": "composite", "sources": sources, "size": 100}), s)
    }),
    1 => (select(vec!["year", "rank"]), select(vec!["1s", "2s"]), sub()).prop_map(move |(f, iv, s)| with_sub(json!({"type": "date_histogram", "field": f, "fixed_interval": iv}), s)),
  ]
  .boxed()
}

fn has_type(q: &Value, ty: &str) -> bool {
  match q {
    Value::Object(m) => m.get("type").and_then(|t| t.as_str()) == Some(ty) || m.values().any(|v| has_type(v, ty)),
    Value::Array(a) => a.iter().any(|v| has_type(v, ty)),
    _ => false,
  }
}

fn has_limit(a: &Value) -> bool {
  match a {
    Value::Object(m) => {
      let ty = m.get("type").and_then(|t| t.as_str()).unwrap_or("");
      let own = matches!(ty, "terms" | "rare_terms" | "histogram") && (m.contains_key("size") || m.contains_key("min_doc_count") || m.contains_key("max_doc_count")) || ty == "rare_terms" || (ty == "top_hits");
      own || m.values().any(has_limit)
    }
    Value::Array(x) => x.iter().any(has_limit),
    _ => false,
  }
}

fn normalise(weights: &[usize], n: usize) -> Vec<usize> {
  let total: usize = weights.iter().sum();
  let mut commits: Vec<usize> = weights.iter().map(|w| w * n / total.max(1)).collect();
  let assigned: usize = commits.iter().sum();
  if let Some(last) = commits.last_mut() {
    *last += n - assigned;
  }
  commits.retain(|c| *c > 0);
  if commits.is_empty() {
    commits.push(n);
  }
  commits
}

impl Property for C12 {
  type Case = Case;
  const ID: &'static str = "C12";
  fn rule() -> String {
    "cases = a corpus of 4-40 documents (keyword/i64/f64 fast fields, single, multi-valued and missing) with an optional filter and optional deletions, committed under 3-4 segment layouts (one segment, two random partitions, one document per segment), and 6 aggregation trees of depth<=2 (terms with size/min_doc_count/missing, rare_terms, range, histogram with offset/bounds/missing/min_doc_count, stats, extended_stats, value_count, cardinality, exact percentiles and percentile_ranks, filter, top_hits, plus composite and date_histogram for the layout comparison); (1) the responses under all layouts must be equal; (2) the response must equal the reference computation over the matched live documents (limits and thresholds applied to the merged counts). Non-trivial = >=2 layouts with >=2 segments in which some bucket key occurs in more than one segment and the tree carries a size/min_doc_count/max_doc_count/from limit; distinct = hash of (aggregation, documents)".into()
  }
  fn assumptions() -> Vec<String> {
    vec![
      "the query is match_all (+ filter) so that document scores (reported by top_hits) do not depend on segment statistics".into(),
      "range bounds never coincide with a data value; shard_size, sampling, precision_threshold and pipeline aggregations are not generated (documented as approximate or out of the property's list)".into(),
      "empty metric results (no value) are compared on count/value only".into(),
    ]
  }
  fn plan(tier: Tier) -> Plan {
    Plan { workers: 16, cases_per_worker: tier.pick(150, 30000) }
  }
  fn shrink_iters() -> u32 {
    600
  }
  fn strategy(_tier: Tier) -> BoxedStrategy<Case> {
    let w = scoreworld::world(WorldOpts { min_docs: 4, max_docs: 40, max_commits: 1, deletes: true, ties: true, vocab: 6 });
    (w, vec(vec(1usize..50, 2..5), 2), proptest::option::weighted(0.4, c08::root_filter(&scoreworld::schema(), 1)), vec(agg_tree(2), 6))
      .prop_map(|(world, layouts, filter, aggs)| Case { world, layouts, filter, aggs })
      .boxed()
  }
  fn run(case: &Case, ctx: &Ctx) -> Outcome {
    let mut out = Outcome::new();
    let n = case.world.docs.len();
    let mut layouts: Vec<Vec<usize>> = vec![vec![n]];
    for l in case.layouts.iter() {
      layouts.push(normalise(l, n));
    }
    if n <= 16 {
      layouts.push(vec![1; n]);
    }
    let schema = scoreworld::schema();
    let mut aggs_obj = serde_json::Map::new();
    for (i, a) in case.aggs.iter().enumerate() {
      aggs_obj.insert(format!("a{i}"), a.clone());
    }
    let mut responses: Vec<(Vec<usize>, BTreeMap<String, Value>)> = Vec::new();
    let mut reference: Option<BTreeMap<String, Option<Value>>> = None;
    let mut live_docs: Vec<(String, Value, usize, usize)> = Vec::new();
    for layout in layouts.iter() {
      let mut w = case.world.clone();
      w.commits = layout.clone();
      let built = match w.build("c12") {
        Ok(b) => b,
        Err(e) => {
          out.fail("corpus-build-failed", format!("{e:#}"));
          return out;
        }
      };
      let reader = match built.idx.reader() {
        Ok(r) => r,
        Err(e) => {
          out.fail("reader-open-failed", format!("{e:#}"));
          return out;
        }
      };
      let mut req = json!({"query": {"type": "match_all"}, "limit": n + 5, "execution": "bm25", "aggs": Value::Object(aggs_obj.clone())});
      if let Some(f) = &case.filter {
        req["filter"] = f.clone();
      }
      let res = match sut::search(&reader, req.clone()) {
        Ok(r) => r,
        Err(e) => {
          out.fail("aggregation-request-failed", format!("{e:#}; request {req}"));
          return out;
        }
      };
      let map: BTreeMap<String, Value> = res.aggregations.iter().map(|(k, v)| (k.clone(), serde_json::to_value(v).unwrap())).collect();
      if reference.is_none() {
        // reference computation over the matched live documents (ids from the hit list of this request)
        let matched: Vec<String> = res.hits.iter().map(|h| h.doc_id.clone()).collect();
        let docs: Vec<Doc> = matched.iter().filter_map(|id| built.live.iter().find(|(i, _, _, _)| i == id).map(|(i, d, _, _)| Doc { id: i.as_str(), json: d, score: 1.0 })).collect();
        let refs: Vec<&Doc> = docs.iter().collect();
        let order = |sort: &Value| -> Option<BTreeMap<String, usize>> {
          let mut r = json!({"query": {"type": "match_all"}, "limit": n + 5, "execution": "bm25", "sort": sort});
          if let Some(f) = &case.filter {
            r["filter"] = f.clone();
          }
          sut::search(&reader, r).ok().map(|x| x.hits.iter().enumerate().map(|(p, h)| (h.doc_id.clone(), p)).collect())
        };
        let model = AggModel { schema: &schema, order: &order };
        let mut m = BTreeMap::new();
        for (i, a) in case.aggs.iter().enumerate() {
          m.insert(format!("a{i}"), model.eval(a, &refs));
        }
        reference = Some(m);
        live_docs = built.live.clone();
      }
      responses.push((layout.clone(), map));
    }
    let reference = reference.unwrap();
    let known_limits = ctx.is_known(Self::ID, SIG_TERMS_LIMITS);
    let known_from = ctx.is_known(Self::ID, SIG_TOP_HITS_FROM);
    for (i, a) in case.aggs.iter().enumerate() {
      out.evals += 1;
      let name = format!("a{i}");
      let limited = has_limit(a);
      let top_hits_from = has_type(a, "top_hits");
      // (1) layout independence
      let first = &responses[0];
      let mut failed = false;
      for other in responses.iter().skip(1) {
        let (x, y) = (first.1.get(&name).cloned().unwrap_or(Value::Null), other.1.get(&name).cloned().unwrap_or(Value::Null));
        if !json_close(&x, &y) {
          let detail = format!("aggregation {a} over the same documents: layout {:?} gives {x}, layout {:?} gives {y}; filter {:?}; deletes {:?}", first.0, other.0, case.filter, case.world.deletes);
          let sig = if top_hits_from && !limited_other_than_top_hits(a) { SIG_TOP_HITS_FROM } else if limited { SIG_TERMS_LIMITS } else { "aggregation-depends-on-segmentation" };
          out.fail(sig, detail);
          if (sig == SIG_TERMS_LIMITS && known_limits) || (sig == SIG_TOP_HITS_FROM && known_from) {
            out.excluded_known += 1;
            failed = true;
            break;
          }
          return out;
        }
      }
      if failed {
        continue;
      }
      // (2) reference (single-segment response is representative once (1) holds)
      if let Some(Some(want)) = reference.get(&name) {
        let got = first.1.get(&name).cloned().unwrap_or(Value::Null);
        if !json_close(&strip_empty_metrics(&got), &strip_empty_metrics(want)) {
          out.fail("aggregation-differs-from-reference", format!("aggregation {a}: response {got}, independent computation over the matched documents {want}; filter {:?}; documents {:?}", case.filter, live_docs.iter().map(|(i, d, _, _)| (i, d)).collect::<Vec<_>>()));
          return out;
        }
        out.class("reference-checked");
      } else {
        out.class("layout-only");
      }
      let multi_seg_layouts = responses.iter().filter(|(l, _)| l.len() >= 2).count();
      if multi_seg_layouts >= 2 && limited {
        out.nontrivial(fingerprint_json(&(a, &case.world.docs)));
      }
    }
    out
  }
}

fn limited_other_than_top_hits(a: &Value) -> bool {
  match a {
    Value::Object(m) => {
      let ty = m.get("type").and_then(|t| t.as_str()).unwrap_or("");
      let own = (matches!(ty, "terms" | "histogram") && (m.contains_key("size") || m.contains_key("min_doc_count"))) || ty == "rare_terms";
      own || m.values().any(limited_other_than_top_hits)
    }
    Value::Array(x) => x.iter().any(limited_other_than_top_hits),
    _ => false,
  }
}

/// metric responses without any value: keep only the count (min/max/avg of nothing are not specified)
fn strip_empty_metrics(v: &Value) -> Value {
  match v {
    Value::Object(m) => {
      let ty = m.get("type").and_then(|t| t.as_str()).unwrap_or("");
      if (ty == "stats" || ty == "extended_stats") && m.get("count").and_then(|c| c.as_u64()) == Some(0) {
        return json!({"type": ty, "count": 0});
      }
      if (ty == "percentiles" || ty == "percentile_ranks") && false {
        return v.clone();
      }
      Value::Object(m.iter().map(|(k, x)| (k.clone(), strip_empty_metrics(x))).collect())
    }
    Value::Array(a) => Value::Array(a.iter().map(strip_empty_metrics).collect()),
    _ => v.clone(),
  }
}
