//! Thin helpers around the system under test (searchlite-core).
use std::path::{Path, PathBuf};
use std::sync::atomic::{AtomicU64, Ordering};
use std::sync::Arc;

use anyhow::{anyhow, Result};
use searchlite_core::api::types::{IndexOptions, SearchRequest};
use searchlite_core::api::{Document, Index, IndexReader, SearchResult};
use searchlite_core::storage::{FsStorage, InMemoryStorage, Storage};
use serde_json::{json, Value};

use crate::gen::SchemaSpec;

static COUNTER: AtomicU64 = AtomicU64::new(0);

/// A scratch directory under /dev/shm (tmpfs) removed on drop.
pub struct Scratch {
  pub path: PathBuf,
}

impl Scratch {
  pub fn new(tag: &str) -> Self {
    let base = if Path::new("/dev/shm").is_dir() { PathBuf::from("/dev/shm/slverif") } else { crate::engine::verif_root().join("target/scratch") };
    let n = COUNTER.fetch_add(1, Ordering::Relaxed);
    let path = base.join(format!("{}-{}-{}", std::process::id(), tag, n));
    let _ = std::fs::remove_dir_all(&path);
    std::fs::create_dir_all(&path).expect("create scratch dir");
    Scratch { path }
  }
  pub fn sub(&self, name: &str) -> PathBuf {
    self.path.join(name)
  }
}

impl Drop for Scratch {
  fn drop(&mut self) {
    let _ = std::fs::remove_dir_all(&self.path);
  }
}

#[derive(Clone, Copy, Debug, PartialEq, Eq, serde::Serialize, serde::Deserialize)]
pub enum StorageKind {
  Fs,
  Mem,
}

pub fn index_options(path: &Path, positions: bool, storage: StorageKind, k1: f32, b: f32) -> IndexOptions {
  let v = json!({
    "path": path,
    "create_if_missing": false,
    "enable_positions": positions,
    "bm25_k1": k1,
    "bm25_b": b,
    "storage": match storage { StorageKind::Fs => "Filesystem", StorageKind::Mem => "InMemory" },
  });
  serde_json::from_value(v).expect("index options")
}

pub fn default_options(path: &Path, storage: StorageKind) -> IndexOptions {
  index_options(path, true, storage, 1.2, 0.75)
}

pub fn make_storage(path: &Path, kind: StorageKind) -> Arc<dyn Storage> {
  match kind {
    StorageKind::Fs => Arc::new(FsStorage::new(path.to_path_buf())),
    StorageKind::Mem => Arc::new(InMemoryStorage::new(path.to_path_buf())),
  }
}

pub fn create_index(path: &Path, schema: &SchemaSpec, opts: IndexOptions, storage: Arc<dyn Storage>) -> Result<Index> {
  Index::create_with_storage(path, schema.to_schema(), opts, storage)
}

pub fn document(v: &Value) -> Document {
  let fields = v.as_object().map(|m| m.iter().map(|(k, v)| (k.clone(), v.clone())).collect()).unwrap_or_default();
  Document { fields }
}

pub fn request(v: Value) -> Result<SearchRequest> {
  let mut v = v;
  if let Some(m) = v.as_object_mut() {
    m.entry("return_stored").or_insert(json!(false));
    m.entry("limit").or_insert(json!(1000));
  }
  serde_json::from_value(v).map_err(|e| anyhow!("request does not deserialize: {e}"))
}

pub fn search(reader: &IndexReader, v: Value) -> Result<SearchResult> {
  let req = request(v)?;
  reader.search(&req)
}

/// All live documents as (id, stored fields) through the public search API.
pub fn contents(reader: &IndexReader, limit: usize) -> Result<(Vec<(String, Value)>, u64)> {
  let res = search(reader, json!({"query": {"type": "match_all"}, "limit": limit, "return_stored": true, "execution": "bm25"}))?;
  let mut out = Vec::new();
  for h in res.hits.iter() {
    out.push((h.doc_id.clone(), h.fields.clone().unwrap_or(Value::Null)));
  }
  Ok((out, res.total_hits_estimate))
}

pub fn hit_ids(res: &SearchResult) -> Vec<String> {
  res.hits.iter().map(|h| h.doc_id.clone()).collect()
}
