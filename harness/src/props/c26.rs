//! C26 — the C search entry point stays within the caller's buffer.
use std::ffi::CString;
use std::os::raw::c_char;

use proptest::collection::vec;
use proptest::prelude::*;
use proptest::sample::select;
use serde::{Deserialize, Serialize};
use serde_json::{json, Value};

use searchlite_ffi::{searchlite_add_json, searchlite_commit, searchlite_index_close, searchlite_index_open, searchlite_search};

use crate::engine::{fingerprint_json, note_inflight, Ctx, Outcome, Plan, Property, Tier};
use crate::scoreworld;
use crate::sut::{self, Scratch, StorageKind};

#[derive(Clone, Debug, Serialize, Deserialize)]
pub enum Q {
  /// plain query-string text
  Text(String),
  /// a JSON query node
  Node(Value),
  /// raw bytes (possibly invalid UTF-8), no interior NUL
  Bytes(Vec<u8>),
}

#[derive(Clone, Debug, Serialize, Deserialize)]
pub struct Case {
  pub docs: Vec<Value>,
  pub query: Q,
  pub limit: usize,
  /// None | Some(garbage) ; "@page2" asks for the real cursor of the first page
  pub cursor: Option<String>,
  pub aggs: Option<String>,
  /// capacity selectors (scaled into 0..=full+16); empty + `every_cap` = enumerate all
  pub caps: Vec<u16>,
  pub every_cap: bool,
}

pub struct C26;

const CANARY: usize = 64;
const FILL: u8 = 0xAA;

struct Handle(*mut searchlite_ffi::IndexHandle);
impl Drop for Handle {
  fn drop(&mut self) {
    unsafe { searchlite_index_close(self.0) }
  }
}

fn cstring(bytes: &[u8]) -> CString {
  CString::new(bytes.iter().copied().filter(|b| *b != 0).collect::<Vec<u8>>()).unwrap()
}

/// One call with a guarded buffer: returns (ret, the whole allocation after the call)
unsafe fn call(h: &Handle, q: &CString, limit: usize, cursor: Option<&CString>, aggs: Option<&[u8]>, cap: usize) -> (usize, Vec<u8>) {
  let mut mem = vec![FILL; CANARY + cap + CANARY];
  let buf = mem.as_mut_ptr().add(CANARY) as *mut c_char;
  // the aggregation JSON is NOT NUL-terminated at aggs_len: bytes that are not JSON follow it inside the same
  // allocation (the contract is "aggs_len bytes of JSON"; a callee reading on to a NUL gets text that does not parse)
  let padded: Option<Vec<u8>> = aggs.map(|a| {
    let mut v = a.to_vec();
    v.extend_from_slice(b"]]}\"@@not-json@@\0");
    v
  });
  let (ap, al) = match (&padded, aggs) {
    (Some(p), Some(a)) => (p.as_ptr() as *const c_char, a.len()),
    _ => (std::ptr::null(), 0),
  };
  let ret = searchlite_search(h.0, q.as_ptr(), limit, cursor.map(|c| c.as_ptr()).unwrap_or(std::ptr::null()), ap, al, buf, cap);
  (ret, mem)
}

impl Property for C26 {
  type Case = Case;
  const ID: &'static str = "C26";
  fn rule() -> String {
    "cases = an index opened through the C API (documents added through searchlite_add_json + searchlite_commit), a query (plain text, JSON node, raw bytes incl. invalid UTF-8), limit 0..6, optional cursor (garbage or the real next_cursor), optional aggregation JSON (valid, invalid, empty) and buffer capacities: quick 40 sampled capacities in 0..=full length+16 plus 0, 1, 2, full-1, full, full+1; thorough EVERY capacity in that range. The output buffer sits between two 64-byte canary regions inside one allocation pre-filled with 0xAA. Oracle per call: canaries and every byte at index >= buf_cap unchanged; ret <= buf_cap-1; a NUL at index ret and none before it; bytes [0,ret) are a prefix of the full response obtained with a large buffer; buf_cap 0 leaves the buffer untouched and returns 0; null handle / query / output buffer return 0 and write nothing; a failing search (invalid aggregation JSON, invalid cursor) returns 0 and writes nothing; the aggregation JSON is passed WITHOUT a NUL at aggs_len (non-JSON bytes follow it in the same allocation) and a well-formed map must be honoured (every requested name answered) whenever the same search without it succeeds - reading past aggs_len shows as a parse failure. Process aborts are caught by the supervisor. Non-trivial = a truncating call (0 < buf_cap <= full length); distinct = hash of (case, cap)".into()
  }
  fn assumptions() -> Vec<String> {
    vec!["the full response is deterministic for an unchanged index (checked: two large-buffer calls must agree, otherwise only the bounds are judged)".into()]
  }
  fn plan(tier: Tier) -> Plan {
    Plan { workers: 16, cases_per_worker: tier.pick(120, 1500) }
  }
  fn shrink_iters() -> u32 {
    500
  }
  fn isolate() -> bool {
    true
  }
  fn strategy(tier: Tier) -> BoxedStrategy<Case> {
    let doc = (select(vec!["rust search engine", "quick brown fox", "rust", "the fox jumps over the lazy dog", "café 東京 🚀 naïve", "", "a \"quoted\" \\ text\nnewline"]), select(vec!["red", "green", "blue"]), 0i64..5, 0u8..40).prop_map(|(b, t, y, i)| json!({"_id": format!("f{i}"), "body": b, "tag": t, "year": y, "price": y as f64 * 0.5}));
    let q = prop_oneof![
      4 => select(vec!["rust", "fox", "rust fox", "nothing", "", "body:rust", "\"quick brown\"", "-rust", "café", "🚀"]).prop_map(|s| Q::Text(s.to_string())),
      3 => select(vec![json!({"type": "match_all"}), json!({"type": "term", "field": "body", "value": "rust"}), json!({"type": "prefix", "field": "body", "value": "r"}), json!({"type": "bool", "should": [{"type": "term", "field": "body", "value": "fox"}, {"type": "term", "field": "tag", "value": "red"}]}), json!({"type": "term", "field": "nope", "value": "x"})]).prop_map(Q::Node),
      1 => vec(1u8..=255, 0..12).prop_map(Q::Bytes),
      1 => Just(Q::Bytes(vec![0xff, 0xfe, b'r', b'u', b's', b't'])),
    ];
    let cursor = prop_oneof![5 => Just(None), 2 => Just(Some("@page2".to_string())), 1 => "[0-9a-f]{42}".prop_map(Some), 1 => select(vec!["zz", "", "aéb", "00"]).prop_map(|s| Some(s.to_string()))];
    let aggs = prop_oneof![
      4 => Just(None),
      3 => select(vec![r#"{"t":{"type":"terms","field":"tag"}}"#, r#"{"s":{"type":"stats","field":"year"},"h":{"type":"histogram","field":"price","interval":0.5}}"#, r#"{"th":{"type":"top_hits","size":2}}"#]).prop_map(|s| Some(s.to_string())),
      1 => select(vec!["{", "[]", "null", "{\"t\":{\"type\":\"nope\"}}", "\u{feff}{}", "{}"]).prop_map(|s| Some(s.to_string())),
    ];
    let every = tier == Tier::Thorough;
    (vec(doc, 0..12), q, 0usize..7, cursor, aggs, vec(any::<u16>(), 40), if every { prop::bool::weighted(0.5).boxed() } else { Just(false).boxed() })
      .prop_map(|(docs, query, limit, cursor, aggs, caps, every_cap)| Case { docs, query, limit, cursor, aggs, caps, every_cap })
      .boxed()
  }
  fn run(case: &Case, _ctx: &Ctx) -> Outcome {
    let mut out = Outcome::new();
    out.evals = 1;
    let scratch = Scratch::new("c26");
    let root = scratch.sub("idx");
    // the index is created with a schema through the library, then driven through the C API only
    {
      let storage = sut::make_storage(&root, StorageKind::Fs);
      if let Err(e) = sut::create_index(&root, &scoreworld::schema(), sut::index_options(&root, true, StorageKind::Fs, 0.9, 0.4), storage) {
        out.fail("create-failed", format!("{e:#}"));
        return out;
      }
    }
    let path = cstring(root.display().to_string().as_bytes());
    let h = unsafe { searchlite_index_open(path.as_ptr(), false) };
    if h.is_null() {
      out.fail("ffi-open-failed", "searchlite_index_open returned null for an existing index".to_string());
      return out;
    }
    let h = Handle(h);
    for d in case.docs.iter() {
      let js = cstring(d.to_string().as_bytes());
      let rc = unsafe { searchlite_add_json(h.0, js.as_ptr(), js.as_bytes().len()) };
      if rc < 0 {
        out.fail("ffi-add-failed", format!("searchlite_add_json returned {rc} for {d}"));
        return out;
      }
    }
    let rc = unsafe { searchlite_commit(h.0) };
    if rc != 0 {
      out.fail("ffi-commit-failed", format!("searchlite_commit returned {rc}"));
      return out;
    }
    let q = match &case.query {
      Q::Text(s) => cstring(s.as_bytes()),
      Q::Node(v) => cstring(v.to_string().as_bytes()),
      Q::Bytes(b) => cstring(b),
    };
    let aggs_bytes: Option<Vec<u8>> = case.aggs.as_ref().map(|s| s.as_bytes().to_vec());
    const BIG: usize = 1 << 18;
    // the cursor
    let cursor: Option<CString> = match case.cursor.as_deref() {
      None => None,
      Some("@page2") => {
        let (ret, mem) = unsafe { call(&h, &q, case.limit, None, aggs_bytes.as_deref(), BIG) };
        let text = String::from_utf8_lossy(&mem[CANARY..CANARY + ret]).to_string();
        serde_json::from_str::<Value>(&text).ok().and_then(|v| v.get("next_cursor").and_then(|c| c.as_str().map(|s| cstring(s.as_bytes()))))
      }
      Some(s) => Some(cstring(s.as_bytes())),
    };
    note_inflight("full-size call");
    let (full_len, mem) = unsafe { call(&h, &q, case.limit, cursor.as_ref(), aggs_bytes.as_deref(), BIG) };
    let full: Vec<u8> = mem[CANARY..CANARY + full_len.min(BIG)].to_vec();
    let (full_len2, mem2) = unsafe { call(&h, &q, case.limit, cursor.as_ref(), aggs_bytes.as_deref(), BIG) };
    let deterministic = full_len == full_len2 && mem[CANARY..CANARY + full_len.min(BIG)] == mem2[CANARY..CANARY + full_len2.min(BIG)];
    if !deterministic {
      out.class("response-not-deterministic");
    }
    let failing = full_len == 0;
    out.class(if failing { "search-fails-or-empty" } else { "search-ok" });
    if !failing {
      if serde_json::from_slice::<Value>(&full).is_err() {
        out.fail("full-response-is-not-json", format!("large-buffer call returned {full_len} bytes that do not parse as JSON: {:?}", String::from_utf8_lossy(&full[..full.len().min(200)])));
        return out;
      }
      if mem[CANARY + full_len] != 0 {
        out.fail("missing-nul", format!("large-buffer call: byte at index ret={full_len} is {:#04x}, not NUL", mem[CANARY + full_len]));
        return out;
      }
    }
    // aggs_json is "aggs_len bytes of JSON": a well-formed aggregation map of exactly that length must be read as
    // such (nothing after aggs_len belongs to it), i.e. the search that works without it works with it and answers it
    if let Some(a) = case.aggs.as_deref() {
      if let Ok(map) = serde_json::from_str::<std::collections::BTreeMap<String, searchlite_core::api::types::Aggregation>>(a) {
        if !map.is_empty() {
          out.evals += 1;
          note_inflight("call without aggregations");
          let (plain_len, _) = unsafe { call(&h, &q, case.limit, cursor.as_ref(), None, BIG) };
          if plain_len > 0 {
            out.class("valid-aggs-judged");
            // (an index without matching documents may answer with no aggregations member at all)
            let answered = serde_json::from_slice::<Value>(&full)
              .ok()
              .map(|v| v.get("total_hits_estimate").and_then(|t| t.as_u64()).unwrap_or(0) == 0 || map.keys().all(|k| v.get("aggregations").and_then(|x| x.get(k)).is_some()))
              .unwrap_or(false);
            if failing || !answered {
              out.fail("valid-aggregation-json-not-honoured", format!("the search succeeds without aggregations ({plain_len} bytes) but with the {}-byte aggregation JSON {a:?} (followed in memory by bytes that are not part of it) it returned {full_len} bytes: {:?}", a.len(), String::from_utf8_lossy(&full[..full.len().min(200)])));
              return out;
            }
          }
        }
      }
    }
    // capacities
    let span = full_len + 16;
    let mut caps: Vec<usize> = if case.every_cap { (0..=span).collect() } else { case.caps.iter().map(|c| (*c as usize * (span + 1)) >> 16).collect() };
    caps.extend([0usize, 1, 2, full_len.saturating_sub(1), full_len, full_len + 1, full_len + 2]);
    caps.sort_unstable();
    caps.dedup();
    let ctxt = |cap: usize| format!("query {:?} limit {} cursor {:?} aggs {:?} buf_cap {cap} (full response {} bytes)", case.query, case.limit, cursor, case.aggs, full_len);
    for cap in caps {
      out.evals += 1;
      note_inflight(&format!("buf_cap {cap}"));
      let (ret, mem) = unsafe { call(&h, &q, case.limit, cursor.as_ref(), aggs_bytes.as_deref(), cap) };
      if mem[..CANARY].iter().any(|b| *b != FILL) {
        out.fail("write-before-buffer", format!("bytes before the buffer changed; {}", ctxt(cap)));
        return out;
      }
      if let Some(i) = mem[CANARY + cap..].iter().position(|b| *b != FILL) {
        out.fail("write-past-buf-cap", format!("byte at index buf_cap+{i} changed to {:#04x}; ret {ret}; {}", mem[CANARY + cap + i], ctxt(cap)));
        return out;
      }
      let buf = &mem[CANARY..CANARY + cap];
      if cap == 0 {
        if ret != 0 {
          out.fail("nonzero-return-for-zero-capacity", format!("ret {ret}; {}", ctxt(cap)));
          return out;
        }
        continue;
      }
      if ret > cap - 1 {
        out.fail("return-value-exceeds-capacity", format!("ret {ret} > buf_cap-1; {}", ctxt(cap)));
        return out;
      }
      if failing {
        // a failing search returns 0; it may or may not NUL-terminate, but must not write anything else
        if ret != 0 {
          out.fail("failing-search-returns-nonzero", format!("ret {ret} although the large-buffer call returned 0; {}", ctxt(cap)));
          return out;
        }
        if buf.iter().skip(1).any(|b| *b != FILL) || (buf[0] != FILL && buf[0] != 0) {
          out.fail("failing-search-writes-output", format!("buffer changed although ret 0; {}", ctxt(cap)));
          return out;
        }
        continue;
      }
      if buf[ret] != 0 {
        out.fail("missing-nul", format!("byte at index ret={ret} is {:#04x}, not NUL; {}", buf[ret], ctxt(cap)));
        return out;
      }
      if buf[..ret].contains(&0) {
        out.fail("nul-inside-text", format!("a NUL byte before index ret={ret}; {}", ctxt(cap)));
        return out;
      }
      if deterministic && (ret > full.len() || buf[..ret] != full[..ret]) {
        out.fail("output-is-not-a-prefix", format!("the {ret} bytes written are not a prefix of the full response; got {:?}; {}", String::from_utf8_lossy(&buf[..ret.min(120)]), ctxt(cap)));
        return out;
      }
      if cap <= full_len {
        out.nontrivial(fingerprint_json(&(&case.query, case.limit, &case.aggs, case.docs.len(), cap)));
      }
    }
    // null arguments
    out.evals += 1;
    unsafe {
      let mut mem = vec![FILL; CANARY * 2 + 64];
      let buf = mem.as_mut_ptr().add(CANARY) as *mut c_char;
      note_inflight("null handle");
      let r1 = searchlite_search(std::ptr::null_mut(), q.as_ptr(), case.limit, std::ptr::null(), std::ptr::null(), 0, buf, 64);
      note_inflight("null query");
      let r2 = searchlite_search(h.0, std::ptr::null(), case.limit, std::ptr::null(), std::ptr::null(), 0, buf, 64);
      note_inflight("null output buffer");
      let r3 = searchlite_search(h.0, q.as_ptr(), case.limit, std::ptr::null(), std::ptr::null(), 0, std::ptr::null_mut(), 64);
      note_inflight("null aggs with length");
      let _r4 = searchlite_search(h.0, q.as_ptr(), case.limit, std::ptr::null(), std::ptr::null(), 17, buf, 0);
      if r1 != 0 || r2 != 0 || r3 != 0 {
        out.fail("null-argument-returns-nonzero", format!("null handle -> {r1}, null query -> {r2}, null buffer -> {r3}"));
        return out;
      }
      if mem.iter().any(|b| *b != FILL) {
        out.fail("null-argument-call-writes", "a call with a null handle/query or zero capacity wrote into the buffer".to_string());
        return out;
      }
      note_inflight("null json to add");
      let a1 = searchlite_add_json(h.0, std::ptr::null(), 0);
      let a2 = searchlite_add_json(std::ptr::null_mut(), q.as_ptr(), 0);
      let c1 = searchlite_commit(std::ptr::null_mut());
      if a1 >= 0 || a2 >= 0 || c1 >= 0 {
        out.fail("null-argument-returns-success", format!("add(null json) -> {a1}, add(null handle) -> {a2}, commit(null) -> {c1}"));
        return out;
      }
    }
    out
  }
}
