//! Reference model pieces that work on the raw generated JSON documents only.
use std::collections::BTreeMap;

use serde_json::{Map, Value};

use crate::gen::{NestedSpec, PropSpec, SchemaSpec};

#[derive(Clone, Copy, Debug, PartialEq, Eq)]
pub enum Kind {
  Text,
  Keyword,
  I64,
  F64,
}

#[derive(Clone, Debug)]
pub struct Leaf {
  pub path: String,
  pub kind: Kind,
  pub stored: bool,
  pub indexed: bool,
  pub fast: bool,
  pub nullable: bool,
}

pub fn leaves(schema: &SchemaSpec) -> Vec<Leaf> {
  let mut out = Vec::new();
  for t in schema.text.iter() {
    out.push(Leaf { path: t.name.clone(), kind: Kind::Text, stored: t.stored, indexed: t.indexed, fast: false, nullable: t.nullable });
  }
  for k in schema.keyword.iter() {
    out.push(Leaf { path: k.name.clone(), kind: Kind::Keyword, stored: k.stored, indexed: k.indexed, fast: k.fast, nullable: k.nullable });
  }
  for n in schema.numeric.iter() {
    out.push(Leaf { path: n.name.clone(), kind: if n.i64 { Kind::I64 } else { Kind::F64 }, stored: n.stored, indexed: true, fast: n.fast, nullable: n.nullable });
  }
  fn walk(prefix: &str, n: &NestedSpec, out: &mut Vec<Leaf>) {
    for p in n.props.iter() {
      let path = format!("{prefix}.{}", p.name());
      match p {
        PropSpec::Text(t) => out.push(Leaf { path, kind: Kind::Text, stored: t.stored, indexed: t.indexed, fast: false, nullable: t.nullable }),
        PropSpec::Keyword(k) => out.push(Leaf { path, kind: Kind::Keyword, stored: k.stored, indexed: k.indexed, fast: k.fast, nullable: k.nullable }),
        PropSpec::Numeric(x) => out.push(Leaf { path, kind: if x.i64 { Kind::I64 } else { Kind::F64 }, stored: x.stored, indexed: true, fast: x.fast, nullable: x.nullable }),
        PropSpec::Object(o) => walk(&path, o, out),
      }
    }
  }
  for n in schema.nested.iter() {
    walk(&n.name, n, &mut out);
  }
  out
}

/// values of a top-level field as a list (scalar == one-element list, null/absent == empty)
pub fn value_list(v: Option<&Value>) -> Vec<Value> {
  match v {
    None | Some(Value::Null) => Vec::new(),
    Some(Value::Array(a)) => a.clone(),
    Some(other) => vec![other.clone()],
  }
}

pub fn strings_of(v: Option<&Value>) -> Vec<String> {
  value_list(v).into_iter().filter_map(|x| x.as_str().map(|s| s.to_string())).collect()
}
pub fn i64s_of(v: Option<&Value>) -> Vec<i64> {
  value_list(v).into_iter().filter_map(|x| x.as_i64()).collect()
}
pub fn f64s_of(v: Option<&Value>) -> Vec<f64> {
  value_list(v).into_iter().filter_map(|x| x.as_f64()).collect()
}

fn stored_nested(n: &NestedSpec, v: &Value) -> Value {
  match v {
    Value::Array(a) => Value::Array(a.iter().map(|x| stored_nested(n, x)).collect()),
    Value::Object(m) => {
      let mut out = Map::new();
      for p in n.props.iter() {
        if let Some(raw) = m.get(p.name()) {
          let keep = match p {
            PropSpec::Text(t) => t.stored,
            PropSpec::Keyword(k) => k.stored,
            PropSpec::Numeric(x) => x.stored,
            PropSpec::Object(_) => true,
          };
          if !keep {
            continue;
          }
          match p {
            PropSpec::Object(o) => {
              out.insert(p.name().to_string(), stored_nested(o, raw));
            }
            _ => {
              out.insert(p.name().to_string(), raw.clone());
            }
          }
        }
      }
      Value::Object(out)
    }
    _ => Value::Null,
  }
}

/// What the README calls the stored fields of a document: the id plus every stored field's values.
pub fn stored_projection(schema: &SchemaSpec, doc: &Value) -> Value {
  let obj = doc.as_object().cloned().unwrap_or_default();
  let mut out = Map::new();
  if let Some(id) = obj.get(&schema.doc_id_field) {
    out.insert(schema.doc_id_field.clone(), id.clone());
  }
  for t in schema.text.iter().filter(|t| t.stored) {
    out.insert(t.name.clone(), Value::Array(strings_of(obj.get(&t.name)).into_iter().map(Value::String).collect()));
  }
  for k in schema.keyword.iter().filter(|k| k.stored) {
    out.insert(k.name.clone(), Value::Array(strings_of(obj.get(&k.name)).into_iter().map(Value::String).collect()));
  }
  for n in schema.numeric.iter().filter(|n| n.stored) {
    let vals: Vec<Value> = if n.i64 {
      i64s_of(obj.get(&n.name)).into_iter().map(Value::from).collect()
    } else {
      f64s_of(obj.get(&n.name)).into_iter().map(Value::from).collect()
    };
    out.insert(n.name.clone(), Value::Array(vals));
  }
  for n in schema.nested.iter() {
    if let Some(v) = obj.get(&n.name) {
      out.insert(n.name.clone(), stored_nested(n, v));
    }
  }
  Value::Object(out)
}

/// Normal form used for comparing stored documents: representation choices the
/// documentation leaves open (scalar vs one-element list; null vs absent vs empty list;
/// empty nested objects) are identified; a lost, duplicated, reordered or invented value is not.
pub fn normal(v: &Value) -> Option<Value> {
  match v {
    Value::Null => None,
    Value::Array(a) => {
      let items: Vec<Value> = a.iter().filter_map(normal).collect();
      match items.len() {
        0 => None,
        1 => Some(items.into_iter().next().unwrap()),
        _ => Some(Value::Array(items)),
      }
    }
    Value::Object(m) => {
      let mut out = Map::new();
      for (k, x) in m.iter() {
        if let Some(n) = normal(x) {
          out.insert(k.clone(), n);
        }
      }
      if out.is_empty() {
        None
      } else {
        Some(Value::Object(out))
      }
    }
    Value::Number(n) => {
      // integers stay exact; everything else compares as f64 bits (with -0.0 == 0.0)
      if let Some(i) = n.as_i64() {
        Some(Value::from(i))
      } else if let Some(f) = n.as_f64() {
        if f.fract() == 0.0 && f.abs() < 9.0e15 {
          Some(Value::from(f as i64))
        } else {
          Some(Value::from(f))
        }
      } else {
        Some(v.clone())
      }
    }
    other => Some(other.clone()),
  }
}

pub fn normal_eq(a: &Value, b: &Value) -> bool {
  normal(a) == normal(b)
}

// ---------------------------------------------------------------------------------
// store model: committed map + shared log + per-handle queues

#[derive(Clone, Debug, PartialEq)]
pub enum QOp {
  Add(String, Value),
  Del(String),
}

pub type Contents = BTreeMap<String, Value>;

pub fn apply_ops(state: &mut Contents, ops: &[QOp]) {
  // commit semantics: operations apply in order; last add per id wins; delete removes
  for op in ops {
    match op {
      QOp::Add(id, doc) => {
        state.insert(id.clone(), doc.clone());
      }
      QOp::Del(id) => {
        state.remove(id);
      }
    }
  }
}

/// Model of the write-ahead log shared by the handles of one index directory (filesystem
/// semantics: every handle appends at the current end; truncation empties it for everyone).
#[derive(Clone, Debug, Default)]
pub struct LogModel {
  /// uncommitted records physically in the log, in order
  pub records: Vec<QOp>,
}

#[derive(Clone, Debug, Default)]
pub struct StoreModel {
  pub committed: Contents,
  pub log: LogModel,
  pub handles: BTreeMap<usize, Vec<QOp>>,
}

impl StoreModel {
  pub fn new_handle(&mut self, h: usize) {
    // a new writer replays the uncommitted records in the log
    self.handles.insert(h, self.log.records.clone());
  }
  pub fn drop_handle(&mut self, h: usize) {
    self.handles.remove(&h);
  }
  pub fn add(&mut self, h: usize, id: &str, doc: &Value) {
    let op = QOp::Add(id.to_string(), doc.clone());
    self.log.records.push(op.clone());
    self.handles.get_mut(&h).expect("live handle").push(op);
  }
  pub fn delete(&mut self, h: usize, ids: &[String]) {
    for id in ids {
      let op = QOp::Del(id.clone());
      self.log.records.push(op.clone());
      self.handles.get_mut(&h).expect("live handle").push(op);
    }
  }
  /// returns false when the queue was empty (commit is then a no-op that leaves the log alone)
  pub fn commit(&mut self, h: usize) -> bool {
    let q = std::mem::take(self.handles.get_mut(&h).expect("live handle"));
    if q.is_empty() {
      return false;
    }
    apply_ops(&mut self.committed, &q);
    self.log.records.clear();
    true
  }
  pub fn rollback(&mut self, h: usize) {
    self.handles.get_mut(&h).expect("live handle").clear();
    self.log.records.clear();
  }
  pub fn reopen(&mut self) {
    self.handles.clear();
  }
}
