pub mod c04;
