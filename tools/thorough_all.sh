#!/bin/bash
# tools/thorough_all.sh [ids...] — run the thorough tier of every registered check (or the given ones), one after
# the other; prints one line per check. Exit 1 if any run was not quiet.
cd "$(dirname "$0")/.."
IDS="$@"
if [ -z "$IDS" ]; then
  IDS=$(python3 -c "import json; print(' '.join(c['property_id'] for c in json.load(open('MANIFEST.json'))['checks']))")
fi
bad=0
for id in $IDS; do
  t0=$(date +%s)
  out=$(./check $id --tier thorough 2>&1); rc=$?
  t1=$(date +%s)
  v=$(echo "$out" | grep -c "^VIOLATION")
  line=$(echo "$out" | grep -E "^$id " | tail -1)
  echo "$id rc=$rc violations=$v wall=$((t1-t0))s :: $line"
  if [ $rc -ne 0 ] || [ $v -ne 0 ]; then bad=1; echo "$out" | grep -E -A2 "^VIOLATION|inconclusive" | head -12; fi
done
exit $bad
