//! C04 — committed contents follow upsert/delete/rollback semantics (model-based histories).
use std::collections::BTreeMap;

use proptest::collection::vec;
use proptest::prelude::*;
use serde::{Deserialize, Serialize};
use serde_json::{Map, Value};

use crate::engine::{fingerprint_json, Ctx, Outcome, Plan, Property, Tier};
use crate::gen::{self, DocOpts, SchemaOpts, SchemaSpec};
use crate::model::{normal, stored_projection, StoreModel};
use crate::sut::{self, Scratch, StorageKind};

#[derive(Clone, Debug, Serialize, Deserialize)]
pub enum Op {
  NewHandle(usize),
  DropHandle(usize),
  Add(usize, String, Map<String, Value>),
  Delete(usize, Vec<String>),
  Commit(usize),
  Rollback(usize),
  Compact,
  Reopen,
  Check,
}

#[derive(Clone, Debug, Serialize, Deserialize)]
pub struct Case {
  pub schema: SchemaSpec,
  pub storage: StorageKind,
  pub positions: bool,
  pub ops: Vec<Op>,
}

pub fn op_strategy(schema: &SchemaSpec, ids: usize, handles: usize, docopts: DocOpts) -> BoxedStrategy<Op> {
  let h = 0..handles;
  prop_oneof![
    2 => h.clone().prop_map(Op::NewHandle),
    1 => h.clone().prop_map(Op::DropHandle),
    12 => (h.clone(), gen::doc_id(ids), gen::doc_body(schema, docopts)).prop_map(|(h, id, b)| Op::Add(h, id, b)),
    4 => (h.clone(), vec(gen::doc_id(ids + 2), 1..3)).prop_map(|(h, ids)| Op::Delete(h, ids)),
    6 => h.clone().prop_map(Op::Commit),
    1 => h.clone().prop_map(Op::Rollback),
    1 => Just(Op::Compact),
    1 => Just(Op::Reopen),
    2 => Just(Op::Check),
  ]
  .boxed()
}

pub fn case_strategy(max_ops: usize, schema_opts: SchemaOpts) -> BoxedStrategy<Case> {
  (gen::schema(schema_opts), prop_oneof![Just(StorageKind::Fs), Just(StorageKind::Mem)], any::<bool>(), 4usize..14, 1usize..4)
    .prop_flat_map(move |(schema, storage, positions, ids, handles)| {
      let docopts = DocOpts { text: gen::TextOpts { max_words: 4, odd: true, vocab: 12 }, max_multi: 2, absent: 2, max_nested_objs: 2, null_items: true, extremes: true };
      let ops = vec(op_strategy(&schema, ids, handles, docopts), 3..max_ops);
      (Just(schema), Just(storage), Just(positions), ops)
    })
    .prop_map(|(schema, storage, positions, ops)| Case { schema, storage, positions, ops })
    .boxed()
}

pub struct C04;

struct World {
  idx: searchlite_core::api::Index,
  handles: BTreeMap<usize, searchlite_core::api::IndexWriter>,
}

fn check_contents(idx: &searchlite_core::api::Index, model: &StoreModel, schema: &SchemaSpec, out: &mut Outcome, at: &str) -> bool {
  out.evals += 1;
  let reader = match idx.reader() {
    Ok(r) => r,
    Err(e) => {
      out.fail("reader-open-failed", format!("{at}: reader() failed: {e:#}"));
      return false;
    }
  };
  let limit = model.committed.len() + 50;
  let (got, total) = match sut::contents(&reader, limit) {
    Ok(x) => x,
    Err(e) => {
      out.fail("match-all-failed", format!("{at}: match_all failed: {e:#}"));
      return false;
    }
  };
  let mut seen: BTreeMap<String, Value> = BTreeMap::new();
  for (id, fields) in got.iter() {
    if seen.insert(id.clone(), fields.clone()).is_some() {
      out.fail("duplicate-id", format!("{at}: id {id} returned more than once"));
      return false;
    }
  }
  for id in model.committed.keys() {
    if !seen.contains_key(id) {
      out.fail("missing-doc", format!("{at}: committed id {id} is not returned; got ids {:?}", seen.keys().collect::<Vec<_>>()));
      return false;
    }
  }
  for id in seen.keys() {
    if !model.committed.contains_key(id) {
      out.fail("extra-doc", format!("{at}: id {id} returned but its last committed operation was not an add (or it was never committed)"));
      return false;
    }
  }
  for (id, doc) in model.committed.iter() {
    let want = normal(&stored_projection(schema, doc));
    let have = normal(&seen[id]);
    if want != have {
      out.fail("stored-mismatch", format!("{at}: id {id}: stored fields {:?} != stored projection of last committed version {:?}", have, want));
      return false;
    }
  }
  if total != model.committed.len() as u64 {
    out.fail("total-hits-mismatch", format!("{at}: total_hits_estimate {} != {} live documents (exhaustive execution)", total, model.committed.len()));
    return false;
  }
  true
}

impl Property for C04 {
  type Case = Case;
  const ID: &'static str = "C04";
  fn rule() -> String {
    "cases = generated add/delete/commit/rollback/compact/reopen histories over 1-3 writer handles (Fs or in-memory, positions on/off); the store model (last committed op per id, per-handle queues, shared uncommitted log) is compared with a fresh reader's match_all after every Check and at the end. Non-trivial = the history upserts an id that already lives in an older segment AND (a delete-only commit happened, or a compaction between two commits, or a reopen/new handle with a non-empty log). distinct = hash of the op list".into()
  }
  fn assumptions() -> Vec<String> {
    vec![
      "in-memory storage is driven with at most one live writer handle at a time (log inheritance between two live in-memory handles is undefined by the docs)".into(),
      "stored documents are compared in a normal form (scalar == one-element list, null/absent/[] == empty, empty nested objects dropped)".into(),
    ]
  }
  fn plan(tier: Tier) -> Plan {
    Plan { workers: 16, cases_per_worker: tier.pick(400, 8000) }
  }
  fn strategy(tier: Tier) -> BoxedStrategy<Case> {
    let opts = SchemaOpts { force_compactable: true, ..SchemaOpts::default() };
    let free = SchemaOpts::default();
    prop_oneof![
      4 => case_strategy(tier.pick(80, 250), opts),
      1 => case_strategy(tier.pick(40, 120), free),
    ]
    .boxed()
  }
  fn run(case: &Case, _ctx: &Ctx) -> Outcome {
    let mut out = Outcome::new();
    let scratch = Scratch::new("c04");
    let root = scratch.sub("idx");
    let storage = sut::make_storage(&root, case.storage);
    let opts = sut::index_options(&root, case.positions, case.storage, 1.2, 0.75);
    let idx = match sut::create_index(&root, &case.schema, opts.clone(), storage.clone()) {
      Ok(i) => i,
      Err(e) => {
        out.evals = 1;
        out.fail("create-failed", format!("Index::create failed for a generated schema: {e:#}"));
        return out;
      }
    };
    let mut w = World { idx, handles: BTreeMap::new() };
    let mut model = StoreModel::default();
    out.class(format!("storage:{:?}", case.storage));
    // classification state
    let mut upsert_old_segment = false;
    let mut delete_only_commit = false;
    let mut compact_between = false;
    let mut commits_since_compact = 0usize;
    let mut compact_after_commit = false;
    let mut inherit_nonempty = false;
    let mut compactions_ok = 0usize;

    macro_rules! ensure_handle {
      ($h:expr) => {{
        let h = $h;
        if !w.handles.contains_key(&h) {
          if case.storage == StorageKind::Mem {
            // one live handle at a time on in-memory storage
            let live: Vec<usize> = w.handles.keys().copied().collect();
            for l in live {
              w.handles.remove(&l);
              model.drop_handle(l);
            }
          }
          match w.idx.writer() {
            Ok(wr) => {
              if !model.log.records.is_empty() {
                inherit_nonempty = true;
              }
              w.handles.insert(h, wr);
              model.new_handle(h);
            }
            Err(e) => {
              out.fail("writer-open-failed", format!("Index::writer() failed: {e:#}"));
              return out;
            }
          }
        }
      }};
    }

    for (step, op) in case.ops.iter().enumerate() {
      match op {
        Op::NewHandle(h) => {
          ensure_handle!(*h);
        }
        Op::DropHandle(h) => {
          if w.handles.remove(h).is_some() {
            model.drop_handle(*h);
          }
        }
        Op::Add(h, id, body) => {
          ensure_handle!(*h);
          let doc = gen::with_id(&case.schema, id, body.clone());
          match w.handles.get_mut(h).unwrap().add_document(&sut::document(&doc)) {
            Ok(_) => {
              if model.committed.contains_key(id) {
                upsert_old_segment = true;
              }
              model.add(*h, id, &doc);
            }
            Err(e) => {
              out.fail("valid-doc-rejected", format!("step {step}: add_document rejected a schema-valid document {doc}: {e:#}"));
              return out;
            }
          }
        }
        Op::Delete(h, ids) => {
          ensure_handle!(*h);
          match w.handles.get_mut(h).unwrap().delete_documents(ids) {
            Ok(()) => model.delete(*h, ids),
            Err(e) => {
              out.fail("delete-failed", format!("step {step}: delete_documents failed: {e:#}"));
              return out;
            }
          }
        }
        Op::Commit(h) => {
          ensure_handle!(*h);
          let q = model.handles.get(h).cloned().unwrap_or_default();
          let only_deletes = !q.is_empty() && q.iter().all(|o| matches!(o, crate::model::QOp::Del(_)));
          match w.handles.get_mut(h).unwrap().commit() {
            Ok(()) => {
              if model.commit(*h) {
                if only_deletes {
                  delete_only_commit = true;
                }
                commits_since_compact += 1;
                if compact_after_commit {
                  compact_between = true;
                }
              }
            }
            Err(e) => {
              out.fail("commit-failed", format!("step {step}: commit of schema-valid queued operations failed: {e:#}"));
              return out;
            }
          }
        }
        Op::Rollback(h) => {
          ensure_handle!(*h);
          match w.handles.get_mut(h).unwrap().rollback() {
            Ok(()) => model.rollback(*h),
            Err(e) => {
              out.fail("rollback-failed", format!("step {step}: rollback failed: {e:#}"));
              return out;
            }
          }
        }
        Op::Compact => {
          match w.idx.compact() {
            Ok(()) => {
              compactions_ok += 1;
              if commits_since_compact > 0 {
                compact_after_commit = true;
              }
              commits_since_compact = 0;
            }
            Err(_e) => {
              // An error from compact is a refusal; the property only demands that committed
              // contents are unchanged by it (checked right below). C14 looks at refusals.
              out.class("compact-refused");
            }
          }
          if !check_contents(&w.idx, &model, &case.schema, &mut out, &format!("after compact at step {step}")) {
            return out;
          }
        }
        Op::Reopen => {
          w.handles.clear();
          model.reopen();
          let idx2 = match searchlite_core::api::Index::open_with_storage(opts.clone(), storage.clone()) {
            Ok(i) => i,
            Err(e) => {
              out.fail("reopen-failed", format!("step {step}: Index::open failed: {e:#}"));
              return out;
            }
          };
          w.idx = idx2;
          out.class("reopen");
        }
        Op::Check => {
          if !check_contents(&w.idx, &model, &case.schema, &mut out, &format!("check at step {step}")) {
            return out;
          }
        }
      }
    }
    if !check_contents(&w.idx, &model, &case.schema, &mut out, "final check") {
      return out;
    }
    // a fresh open from storage must agree too
    w.handles.clear();
    match searchlite_core::api::Index::open_with_storage(opts.clone(), storage.clone()) {
      Ok(i) => {
        if !check_contents(&i, &model, &case.schema, &mut out, "final check after reopen") {
          return out;
        }
      }
      Err(e) => {
        out.fail("reopen-failed", format!("final Index::open failed: {e:#}"));
        return out;
      }
    }
    if compactions_ok > 0 {
      out.class("compacted");
    }
    if upsert_old_segment {
      out.class("upsert-of-committed-id");
    }
    if delete_only_commit {
      out.class("delete-only-commit");
    }
    if inherit_nonempty {
      out.class("handle-inherits-log");
    }
    if upsert_old_segment && (delete_only_commit || compact_between || inherit_nonempty) {
      out.nontrivial(fingerprint_json(&case.ops));
    }
    out
  }
}
