//! C16 — search never panics, aborts or hangs on any request that deserializes.
use std::cell::RefCell;
use std::panic::{catch_unwind, AssertUnwindSafe};

use proptest::collection::vec;
use proptest::prelude::*;
use proptest::sample::select;
use serde::{Deserialize, Serialize};
use serde_json::{json, Map, Value};

use crate::engine::{fingerprint_json, sample_strategy, take_last_panic, Ctx, Outcome, Plan, Property, Tier};
use crate::gen::{self, DocOpts, KwSpec, NestedSpec, NumSpec, PropSpec, SchemaSpec, TextOpts, TextSpec};
use crate::props::{c08, c13};
use crate::qgen::{self, QGen};
use crate::scoreworld::{self, WorldOpts};
use crate::sut::{self, StorageKind};

/// One mutation of the request JSON: (site selector, operator selector, payload selector)
pub type Mutation = (u16, u8, u16);

#[derive(Clone, Debug, Serialize, Deserialize)]
pub struct Case {
  pub pool: usize,
  pub request: Value,
  pub mutations: Vec<Mutation>,
  /// how to corrupt a real cursor obtained from the first page (None: do not page)
  pub cursor_edit: Option<(u8, u16, u8)>,
}

pub struct C16;

pub const SIG_HANG: &str = "case-does-not-terminate";

// ---------------------------------------------------------------------------------
// pool of small read-only indexes, one set per worker thread (no state leaks between cases)

struct Pool {
  _scratch: sut::Scratch,
  readers: Vec<searchlite_core::api::IndexReader>,
}

thread_local! {
  static POOL: RefCell<Option<Pool>> = const { RefCell::new(None) };
}

pub fn nested_schema() -> SchemaSpec {
  let kw = |name: &str| KwSpec { name: name.into(), stored: true, indexed: true, fast: true, nullable: true };
  let num = |name: &str, i: bool| NumSpec { name: name.into(), i64: i, fast: true, stored: true, nullable: true };
  let reply = NestedSpec { name: "reply".into(), nullable: true, props: vec![PropSpec::Keyword(kw("label")), PropSpec::Numeric(num("score", true))] };
  let comment = NestedSpec {
    name: "comment".into(),
    nullable: true,
    props: vec![
      PropSpec::Keyword(kw("author")),
      PropSpec::Numeric(num("score", true)),
      PropSpec::Numeric(num("rate", false)),
      PropSpec::Text(TextSpec { name: "note".into(), analyzer: "default".into(), search_analyzer: None, stored: true, indexed: true, nullable: true, saty: None }),
      PropSpec::Object(reply),
    ],
  };
  SchemaSpec {
    doc_id_field: "pk".into(),
    analyzers: gen::analyzer_menu().into_iter().filter(|(n, _)| n == "stop" || n == "syn").map(|(_, v)| v).collect(),
    text: vec![
      TextSpec { name: "body".into(), analyzer: "stop".into(), search_analyzer: None, stored: true, indexed: true, nullable: true, saty: None },
      TextSpec { name: "title".into(), analyzer: "syn".into(), search_analyzer: None, stored: false, indexed: true, nullable: true, saty: Some((1, 4)) },
    ],
    keyword: vec![kw("tag"), KwSpec { name: "cat".into(), stored: false, indexed: true, fast: false, nullable: true }],
    numeric: vec![num("year", true), num("price", false)],
    nested: vec![comment],
  }
}

pub fn pool_schema(pool: usize) -> SchemaSpec {
  match pool {
    1 => nested_schema(),
    _ => scoreworld::schema(),
  }
}

pub const POOLS: usize = 3;

fn build_pool() -> Pool {
  let scratch = sut::Scratch::new("c16pool");
  let mut readers = Vec::new();
  // pool 0: scoring world, 3 segments with deletions (fixed seed: the pool is part of the check, not of the case)
  {
    let w = sample_strategy(&scoreworld::world(WorldOpts { min_docs: 40, max_docs: 40, max_commits: 3, deletes: true, ties: true, vocab: 12 }), 16);
    let built = w.build("c16p0").expect("pool 0");
    readers.push(built.idx.reader().expect("reader 0"));
    std::mem::forget(built.scratch); // in-memory index: nothing on disk
  }
  // pool 1: nested schema, stop words / synonyms / search_as_you_type, 2 segments
  {
    let schema = nested_schema();
    let root = scratch.sub("p1");
    let storage = sut::make_storage(&root, StorageKind::Mem);
    let idx = sut::create_index(&root, &schema, sut::default_options(&root, StorageKind::Mem), storage).expect("pool 1");
    let docopts = DocOpts { text: TextOpts { max_words: 6, odd: true, vocab: 20 }, max_multi: 3, absent: 2, max_nested_objs: 3, null_items: true, extremes: true };
    let bodies = sample_strategy(&vec(gen::doc_body(&schema, docopts), 24).boxed(), 17);
    let mut w = idx.writer().expect("writer");
    for (i, b) in bodies.into_iter().enumerate() {
      let d = gen::with_id(&schema, &format!("n{i}"), b);
      w.add_document(&sut::document(&d)).expect("pool doc");
      if i == 11 {
        w.commit().expect("commit");
      }
    }
    w.commit().expect("commit");
    w.delete_documents(&["n3".to_string(), "n15".to_string()]).expect("delete");
    w.commit().expect("commit");
    readers.push(idx.reader().expect("reader 1"));
  }
  // pool 2: empty index
  {
    let root = scratch.sub("p2");
    let storage = sut::make_storage(&root, StorageKind::Mem);
    let idx = sut::create_index(&root, &scoreworld::schema(), sut::default_options(&root, StorageKind::Mem), storage).expect("pool 2");
    readers.push(idx.reader().expect("reader 2"));
  }
  Pool { _scratch: scratch, readers }
}

// ---------------------------------------------------------------------------------
// hostile payloads

const HOSTILE_STRINGS: &[&str] = &[
  "", " ", "*", "?", "a*", "**", "*a*b*c*d*e*f*g*h*", "????????????????", "(", ")", "[", "]", "a{1000}", "a{1,100000}", "(a*)*b", "(a|aa)+$", ".*", ".*.*.*.*.*x", "\\", "\\d+", "[^", "(?i)rust", "(?P<n>x)", "^$", "|", "a||b",
  "é", "🚀", "aééééééééééééééééééééb", "ÿ", "\u{0}", "\u{feff}rust", "İ", "ǅ", "ß", "ﬁ",
  "_score", "_score * 2", "_score / 0", "1/0", "0/0", "((((((((((", "1 +", "doc['x'].value", "pow(2, 10000)", "-", "+", "--1", "1e999", "NaN", "inf", "sqrt(-1)", "log(0)", "x y z", "_score ^ 2", "params.w * _score", "w w w", "1 2",
  "body", "title", "tag", "cat", "year", "price", "rank", "nope", "comment", "comment.author", "comment.reply.label", "comment.score", "_id", "pk", "_score", "body:rust", "title:", ":", "a:b:c", "\"unterminated", "\"\"", "-rust", "- -", "rust AND OR NOT", "body:\"quick brown\"~2",
  "1s", "0s", "1d", "1M", "month", "1y", "-1s", "99999999999999999999s", "1x", "s", "2020-01-01", "2020-13-45T99:99:99Z", "now", "yyyy-MM-dd", "%Y-%m-%d", "%", "%Q",
  "asc", "desc", "bm25", "wand", "bmw", "sum", "avg", "multiply", "max", "min", "replace", "total", "log", "log1p", "sqrt", "none", "exp", "gauss", "linear", "skip", "insert_zeros", "best_fields", "most_fields", "cross_fields", "and", "or", "75%", "-25%", "101%", "2<75%",
  "s", "s>count", "s.value", "_count", "_key", "a0", "a0>s", "s>s>s>s", ">", "..", "a.b",
];

fn hostile_string(sel: u16) -> String {
  let n = HOSTILE_STRINGS.len() + 3;
  match (sel as usize) % n {
    i if i < HOSTILE_STRINGS.len() => HOSTILE_STRINGS[i].to_string(),
    i if i == HOSTILE_STRINGS.len() => "a".repeat(5000),
    i if i == HOSTILE_STRINGS.len() + 1 => "é".repeat(700),
    _ => "ab ".repeat(300),
  }
}

fn hostile_number(sel: u16) -> Value {
  const INTS: &[i64] = &[0, 1, -1, 2, 3, 7, 64, 128, 255, 256, 65535, 65536, 1_000_000, 4_294_967_295, 4_294_967_296, i64::MAX, i64::MIN, -2, 100, 1000];
  const FLOATS: &[f64] = &[0.0, -0.0, 0.5, -0.5, 1e-300, 1e300, -1e300, 1e-9, 0.1, 1.0000000000000002, 3.4e38, 3.5e38, 1e39, -1e39, 5e-324, 1e15, 0.999999, 2.5, 100.0, 1e308];
  let i = sel as usize % (INTS.len() + FLOATS.len() + 1);
  if i < INTS.len() {
    json!(INTS[i])
  } else if i < INTS.len() + FLOATS.len() {
    json!(FLOATS[i - INTS.len()])
  } else {
    json!(u64::MAX)
  }
}

enum Step<'a> {
  Key(&'a str),
  Idx(usize),
}

fn collect_sites<'a>(v: &'a Value, path: &mut Vec<Step<'a>>, out: &mut Vec<Vec<String>>) {
  let here: Vec<String> = path
    .iter()
    .map(|s| match s {
      Step::Key(k) => format!("k{k}"),
      Step::Idx(i) => format!("i{i}"),
    })
    .collect();
  out.push(here);
  match v {
    Value::Object(m) => {
      for (k, x) in m.iter() {
        path.push(Step::Key(k));
        collect_sites(x, path, out);
        path.pop();
      }
    }
    Value::Array(a) => {
      for (i, x) in a.iter().enumerate() {
        path.push(Step::Idx(i));
        collect_sites(x, path, out);
        path.pop();
      }
    }
    _ => {}
  }
}

fn at_mut<'a>(v: &'a mut Value, path: &[String]) -> Option<&'a mut Value> {
  let mut cur = v;
  for s in path {
    let (kind, rest) = s.split_at(1);
    cur = match kind {
      "k" => cur.as_object_mut()?.get_mut(rest)?,
      _ => cur.as_array_mut()?.get_mut(rest.parse::<usize>().ok()?)?,
    };
  }
  Some(cur)
}

/// Applies one mutation in place; returns a label for the class histogram.
pub fn mutate(v: &mut Value, m: Mutation) -> &'static str {
  let mut sites = Vec::new();
  collect_sites(v, &mut Vec::new(), &mut sites);
  if sites.len() <= 1 {
    return "none";
  }
  // skip the root itself
  let idx = 1 + ((m.0 as usize * (sites.len() - 1)) >> 16);
  let path = sites[idx].clone();
  let Some(node) = at_mut(v, &path) else { return "none" };
  match node {
    Value::Number(_) => {
      *node = hostile_number(m.2);
      "number"
    }
    Value::String(_) => {
      *node = Value::String(hostile_string(m.2));
      "string"
    }
    Value::Bool(b) => {
      *node = Value::Bool(!*b);
      "bool"
    }
    Value::Null => {
      *node = if m.1 % 2 == 0 { hostile_number(m.2) } else { Value::String(hostile_string(m.2)) };
      "null"
    }
    Value::Array(a) => {
      match m.1 % 4 {
        0 => a.clear(),
        1 => {
          let copy = a.clone();
          for _ in 0..(1 + m.2 % 6) {
            a.extend(copy.iter().cloned());
          }
        }
        2 => a.truncate(1),
        _ => a.reverse(),
      }
      "array"
    }
    Value::Object(o) => {
      match m.1 % 3 {
        0 => {
          let keys: Vec<String> = o.keys().cloned().collect();
          if !keys.is_empty() {
            let k = &keys[m.2 as usize % keys.len()];
            o.remove(k);
          }
        }
        1 => {
          // wrap the object into itself where the grammar is recursive (query / aggs nesting)
          let copy = Value::Object(o.clone());
          if o.contains_key("query") && o.get("type").is_some() {
            o.insert("query".into(), copy);
          } else if o.contains_key("aggs") {
            o.insert("aggs".into(), json!({"again": copy}));
          } else {
            let keys: Vec<String> = o.keys().cloned().collect();
            if keys.len() >= 2 {
              let (a, b) = (keys[m.2 as usize % keys.len()].clone(), keys[(m.2 as usize / 7) % keys.len()].clone());
              let va = o.get(&a).cloned().unwrap_or(Value::Null);
              let vb = o.get(&b).cloned().unwrap_or(Value::Null);
              o.insert(a, vb);
              o.insert(b, va);
            }
          }
        }
        _ => {
          o.insert(["boost", "size", "limit", "from", "interval", "missing", "window", "slop", "max_expansions"][m.2 as usize % 9].to_string(), hostile_number(m.2 / 9));
        }
      }
      "object"
    }
  }
}

// ---------------------------------------------------------------------------------
// valid request skeletons

fn pipeline_aggs() -> BoxedStrategy<Value> {
  // a bucket aggregation with metrics and every pipeline kind hanging off it
  (select(vec!["year", "price", "rank"]), select(vec![0.5f64, 1.0, 2.0]), vec(select(vec!["bucket_sort", "avg_bucket", "sum_bucket", "derivative", "moving_avg", "bucket_script"]), 0..4), any::<bool>()).prop_map(|(f, iv, pipes, terms)| {
    let mut aggs = Map::new();
    aggs.insert("m".into(), json!({"type": "stats", "field": "price"}));
    aggs.insert("c".into(), json!({"type": "value_count", "field": "year"}));
    for (i, p) in pipes.iter().enumerate() {
      let v = match *p {
        "bucket_sort" => json!({"type": "bucket_sort", "sort": [{"m.avg": "desc"}], "from": 0, "size": 3}),
        "avg_bucket" => json!({"type": "avg_bucket", "buckets_path": "m.avg"}),
        "sum_bucket" => json!({"type": "sum_bucket", "buckets_path": "c"}),
        "derivative" => json!({"type": "derivative", "buckets_path": "m.sum", "gap_policy": "insert_zeros", "unit": 1.0}),
        "moving_avg" => json!({"type": "moving_avg", "buckets_path": "m.avg", "window": 2, "predict": 1, "gap_policy": "skip"}),
        _ => json!({"type": "bucket_script", "buckets_path": {"a": "m.sum", "b": "c"}, "script": "a / b + 1"}),
      };
      aggs.insert(format!("p{i}"), v);
    }
    if terms {
      json!({"type": "terms", "field": "tag", "size": 5, "shard_size": 10, "sampling": {"probability": 0.5, "seed": 7}, "aggs": Value::Object(aggs)})
    } else {
      json!({"type": "histogram", "field": f, "interval": iv, "min_doc_count": 0, "extended_bounds": {"min": -1.0, "max": 5.0}, "aggs": Value::Object(aggs)})
    }
  })
  .boxed()
}

fn other_aggs() -> BoxedStrategy<Value> {
  prop_oneof![
    Just(json!({"type": "significant_terms", "field": "tag", "size": 3, "min_doc_count": 1, "background_filter": {"KeywordEq": {"field": "cat", "value": "red"}}})),
    Just(json!({"type": "date_histogram", "field": "year", "calendar_interval": "month", "offset": "1s", "format": "%Y-%m-%d", "min_doc_count": 0, "missing": "1970-01-01T00:00:00Z"})),
    Just(json!({"type": "date_histogram", "field": "rank", "fixed_interval": "1s", "extended_bounds": {"min": "1970-01-01T00:00:00Z", "max": "1970-01-01T00:01:00Z"}, "hard_bounds": {"min": "1970-01-01T00:00:00Z", "max": "1970-01-01T00:02:00Z"}})),
    Just(json!({"type": "date_range", "field": "year", "keyed": true, "format": "%Y", "ranges": [{"to": "1970-01-01T00:00:02Z"}, {"key": "late", "from": "1970-01-01T00:00:02Z"}], "missing": "1970-01-01T00:00:00Z"})),
    Just(json!({"type": "cardinality", "field": "tag", "precision_threshold": 10, "missing": "none"})),
    Just(json!({"type": "percentiles", "field": "price", "percents": [1.0, 50.0, 99.0], "missing": 0})),
    Just(json!({"type": "percentile_ranks", "field": "rank", "values": [1.0, 10.0]})),
    Just(json!({"type": "composite", "sources": [{"type": "terms", "name": "k", "field": "tag"}, {"type": "histogram", "name": "h", "field": "price", "interval": 0.5}], "size": 3, "after": {"k": "green", "h": 0.5}, "aggs": {"t": {"type": "top_hits", "size": 1, "from": 0, "fields": ["body"], "sort": [{"field": "rank", "order": "desc"}], "highlight_field": "body"}}})),
    Just(json!({"type": "range", "field": "price", "keyed": false, "ranges": [{"to": 1.0}, {"from": 1.0, "to": 2.0}, {"key": "x", "from": 2.0}], "missing": 0.5, "sampling": {"size": 10}})),
    Just(json!({"type": "rare_terms", "field": "cat", "max_doc_count": 2, "size": 4})),
  ]
  .boxed()
}

pub fn request_strategy(pool: usize) -> BoxedStrategy<Value> {
  let schema = pool_schema(pool);
  let mut qg = QGen::new(&schema, 20, true);
  qg.scoring = true;
  let query = prop_oneof![6 => qg.tree(3), 1 => Just(json!({"type": "match_all"})), 1 => qg.query_string_text(true, true).prop_map(|s| json!(s))];
  let sort_fields: Vec<&'static str> = if pool == 1 { vec!["_score", "tag", "year", "price", "cat", "comment.score", "nope"] } else { vec!["_score", "tag", "cat", "year", "price", "rank"] };
  let sort = vec((select(sort_fields), proptest::option::of(select(vec!["asc", "desc"]))).prop_map(|(f, o)| match o {
    Some(o) => json!({"field": f, "order": o}),
    None => json!({"field": f}),
  }), 0..3);
  let aggs = prop_oneof![3 => c13::agg_tree(2), 2 => pipeline_aggs(), 2 => other_aggs()];
  let part_a = (
    query,
    proptest::option::weighted(0.3, c08::root_filter(&schema, 2)),
    1usize..12,
    sort,
    select(vec!["bm25", "wand", "bmw"]),
    proptest::option::weighted(0.3, 1usize..200),
    qgen::fuzzy(),
    proptest::option::weighted(0.2, 0usize..40),
  );
  let part_b = (
    any::<bool>(),
    proptest::option::weighted(0.2, select(vec!["body", "title", "tag", "nope"])),
    proptest::option::weighted(0.3, (select(vec!["body", "title", "tag"]), 0usize..40, 0usize..4, select(vec![("<em>", "</em>"), ("", ""), ("$1", "$0")]))),
    proptest::option::weighted(0.2, (select(vec!["cat", "tag", "year", "nope"]), proptest::option::of((0usize..4, 0usize..3)))),
    proptest::option::weighted(0.5, vec(aggs, 1..3)),
    proptest::option::weighted(0.25, (select(vec!["body", "title", "tag", "year"]), select(vec!["", "r", "ru", "Ru", "é", "the"]), 0usize..8, proptest::option::weighted(0.4, Just(json!({"max_edits": 2, "prefix_length": 0, "max_expansions": 10, "min_length": 0}))))),
    // the rescore query: a plain tree, or one that rejects window hits (min_score / a script that has no value)
    proptest::option::weighted(0.3, (prop_oneof![
      3 => qg.tree(1),
      2 => (qg.tree(1), select(vec![0.0f64, 0.4, 1.5, 1e30])).prop_map(|(q, m)| json!({"type": "function_score", "query": q, "functions": [{"type": "weight", "weight": 1.0}], "min_score": m})),
      1 => Just(json!({"type": "function_score", "query": {"type": "match_all"}, "functions": [{"type": "weight", "weight": 1.0}], "min_score": 1e30})),
      1 => Just(json!({"type": "script_score", "query": {"type": "match_all"}, "script": "1 / (price - price)"})),
    ], 0usize..15, select(vec!["total", "multiply", "avg", "max", "min"]), proptest::option::of(select(vec![0.0f64, 0.5, 2.0])), proptest::option::of(select(vec![0.0f64, 1.0, 3.0])))),
    (any::<bool>(), any::<bool>(), any::<bool>()),
    proptest::option::weighted(0.15, vec(select(vec!["body", "title", "tag", "nope"]), 0..3)),
  );
  (part_a, part_b)
    .prop_map(|((query, filter, limit, sort, execution, block, fuzzy, cand), (stored, hlf, hl, collapse, aggs, suggest, rescore, (explain, profile, return_hits), fields))| {
      let mut r = json!({"query": query, "limit": limit, "sort": sort, "execution": execution, "return_stored": stored, "explain": explain, "profile": profile, "return_hits": return_hits});
      if let Some(f) = filter {
        r["filter"] = f;
      }
      if let Some(b) = block {
        r["bmw_block_size"] = json!(b);
      }
      if let Some(f) = fuzzy {
        r["fuzzy"] = f;
      }
      if let Some(c) = cand {
        r["candidate_size"] = json!(c);
      }
      if let Some(f) = hlf {
        r["highlight_field"] = json!(f);
      }
      if let Some((f, size, n, (pre, post))) = hl {
        r["highlight"] = json!({"fields": {f: {"pre_tag": pre, "post_tag": post, "fragment_size": size, "number_of_fragments": n}}});
      }
      if let Some((f, inner)) = collapse {
        let mut c = json!({"field": f});
        if let Some((size, from)) = inner {
          c["inner_hits"] = json!({"size": size, "from": from, "sort": [{"field": "year", "order": "desc"}]});
        }
        r["collapse"] = c;
      }
      if let Some(a) = aggs {
        let mut m = Map::new();
        for (i, x) in a.into_iter().enumerate() {
          m.insert(format!("a{i}"), x);
        }
        r["aggs"] = Value::Object(m);
      }
      if let Some((f, p, size, fz)) = suggest {
        let mut s = json!({"type": "completion", "field": f, "prefix": p, "size": size});
        if let Some(fz) = fz {
          s["fuzzy"] = fz;
        }
        r["suggest"] = json!({"s": s});
      }
      if let Some((q, window, mode, qw, rqw)) = rescore {
        let mut rs = json!({"window_size": window, "query": q, "score_mode": mode});
        if let Some(x) = qw {
          rs["query_weight"] = json!(x);
        }
        if let Some(x) = rqw {
          rs["rescore_query_weight"] = json!(x);
        }
        r["rescore"] = rs;
      }
      if let Some(f) = fields {
        r["fields"] = json!(f);
      }
      r
    })
    .boxed()
}

fn cursor_strings() -> BoxedStrategy<String> {
  prop_oneof![
    2 => "[0-9a-f]{0,90}",
    2 => "[0-9a-fA-F]{42}",
    2 => "[0-9a-f]{41,43}",
    1 => "\\PC{0,60}",
    1 => ("[0-9a-f]{0,41}", select(vec!["é", "🚀", "ÿ", "\u{0}", " "]), "[0-9a-f]{0,41}").prop_map(|(a, b, c)| format!("{a}{b}{c}")),
    1 => (1usize..30).prop_map(|n| format!("a{}b", "é".repeat(n))),
    1 => select(vec!["00", "01", "ff", "0100000000", "zz"]).prop_map(|s| s.repeat(21)),
  ]
  .boxed()
}

fn edit_cursor(c: &str, (op, pos, val): (u8, u16, u8)) -> String {
  let mut chars: Vec<char> = c.chars().collect();
  if chars.is_empty() {
    return c.to_string();
  }
  let i = (pos as usize * chars.len()) >> 16;
  match op % 6 {
    0 => {
      chars[i] = std::char::from_digit((val % 16) as u32, 16).unwrap_or('0');
    }
    1 => {
      chars.truncate(i);
    }
    2 => {
      chars.insert(i, std::char::from_digit((val % 16) as u32, 16).unwrap_or('0'));
    }
    3 => {
      chars[i] = ['é', 'z', ' ', 'F', 'G', '\u{0}'][val as usize % 6];
    }
    4 => {
      // set a whole byte (two hex digits) to an extreme
      let j = i - (i % 2);
      let rep = ["00", "ff", "7f", "80", "01"][val as usize % 5];
      for (k, ch) in rep.chars().enumerate() {
        if j + k < chars.len() {
          chars[j + k] = ch;
        }
      }
    }
    _ => {
      let tail: Vec<char> = chars[i..].to_vec();
      chars.extend(tail);
    }
  }
  chars.into_iter().collect()
}

fn run_search(reader: &searchlite_core::api::IndexReader, req: &searchlite_core::api::types::SearchRequest) -> Result<Result<searchlite_core::api::SearchResult, String>, (String, String)> {
  let _ = take_last_panic();
  match catch_unwind(AssertUnwindSafe(|| reader.search(req))) {
    Ok(Ok(r)) => Ok(Ok(r)),
    Ok(Err(e)) => Ok(Err(format!("{e:#}"))),
    Err(_) => Err(take_last_panic().unwrap_or(("unknown".into(), "panic".into()))),
  }
}

fn panic_signature(loc: &str, msg: &str) -> String {
  // location is the root-cause key; the message head disambiguates panics raised inside std from one call site
  let head: String = msg.chars().take(40).collect();
  crate::engine::sanitize_sig(&format!("panic:{loc}:{head}"))
}

impl Property for C16 {
  type Case = Case;
  const ID: &'static str = "C16";
  fn rule() -> String {
    "cases = a structurally valid search request (query tree over every node type, filter, sort, cursor, execution strategy, block size, fuzzy, candidate_size, highlight, collapse, aggregations incl. pipeline / date / significant / composite kinds, suggest, rescore, explain/profile, fields) against one of 3 read-only in-memory indexes (3 segments with deletions; nested schema with stop words, synonyms and search_as_you_type; empty index), then 0-4 type-aware mutations of the JSON (numbers -> extremes, strings -> hostile patterns / scripts / field names / units, arrays emptied / multiplied, objects losing or swapping members or nested into themselves), plus an arbitrary cursor string or an edited copy of a real next_cursor. Oracle: if the JSON deserializes as SearchRequest, IndexReader::search returns Ok or Err - no panic (caught), no process abort and no hang (supervised child process, 120 s per case). Non-trivial = the request deserialized and search was entered (classes count: returned Ok / returned Err / rejected by serde); distinct = hash of the final request".into()
  }
  fn assumptions() -> Vec<String> {
    vec![
      "release profile (debug assertions off), as CLI/HTTP/FFI users run it".into(),
      "a case that needs more than 120 s is re-run alone with 360 s before it is reported as a hang; the address space of the child process is limited to 24 GiB so that a runaway allocation aborts instead of exhausting the machine".into(),
    ]
  }
  fn plan(tier: Tier) -> Plan {
    Plan { workers: 16, cases_per_worker: tier.pick(20000, 400000) }
  }
  fn shrink_iters() -> u32 {
    4000
  }
  fn isolate() -> bool {
    true
  }
  fn hang_is_violation() -> bool {
    true
  }
  fn strategy(_tier: Tier) -> BoxedStrategy<Case> {
    (0usize..POOLS)
      .prop_flat_map(|pool| {
        (
          Just(pool),
          request_strategy(pool),
          vec((any::<u16>(), any::<u8>(), any::<u16>()), 0..5),
          proptest::option::weighted(0.25, cursor_strings()),
          proptest::option::weighted(0.25, (any::<u8>(), any::<u16>(), any::<u8>())),
        )
      })
      .prop_map(|(pool, mut request, mutations, cursor, cursor_edit)| {
        if let Some(c) = cursor {
          request["cursor"] = json!(c);
        }
        Case { pool, request, mutations, cursor_edit }
      })
      .boxed()
  }
  fn run(case: &Case, ctx: &Ctx) -> Outcome {
    let mut out = Outcome::new();
    out.evals = 1;
    let mut req_json = case.request.clone();
    for m in case.mutations.iter() {
      let label = mutate(&mut req_json, *m);
      out.class(format!("mutated:{label}"));
    }
    let req: searchlite_core::api::types::SearchRequest = match serde_json::from_value(req_json.clone()) {
      Ok(r) => r,
      Err(_) => {
        out.class("rejected-by-serde");
        return out;
      }
    };
    POOL.with(|p| {
      let mut p = p.borrow_mut();
      if p.is_none() {
        *p = Some(build_pool());
      }
      let pool = p.as_ref().unwrap();
      let reader = &pool.readers[case.pool % pool.readers.len()];
      let report = |out: &mut Outcome, loc: String, msg: String, what: &str, rj: &Value| {
        let sig = panic_signature(&loc, &msg);
        if ctx.is_known(Self::ID, &sig) {
          out.excluded_known += 1;
        }
        out.fail(sig, format!("{what} panicked at {loc}: {msg}; request {rj}"));
      };
      match run_search(reader, &req) {
        Ok(Ok(res)) => {
          out.class("search-ok");
          out.nontrivial(fingerprint_json(&req_json));
          // second page with an edited real cursor
          if let (Some(edit), Some(cur)) = (case.cursor_edit, res.next_cursor.as_ref()) {
            let mut req2 = req.clone();
            req2.cursor = Some(edit_cursor(cur, edit));
            out.evals += 1;
            match run_search(reader, &req2) {
              Ok(Ok(_)) => out.class("edited-cursor-accepted"),
              Ok(Err(_)) => out.class("edited-cursor-rejected"),
              Err((loc, msg)) => {
                let mut rj = req_json.clone();
                rj["cursor"] = json!(req2.cursor);
                report(&mut out, loc, msg, "search with an edited copy of a real next_cursor", &rj);
              }
            }
          }
        }
        Ok(Err(_)) => {
          out.class("search-err");
          out.nontrivial(fingerprint_json(&req_json));
        }
        Err((loc, msg)) => report(&mut out, loc, msg, "search", &req_json),
      }
    });
    out
  }
}
