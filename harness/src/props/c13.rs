//! C13 — aggregations and suggestions do not depend on paging / sort / execution / flags.
use proptest::collection::vec;
use proptest::prelude::*;
use proptest::sample::select;
use serde::{Deserialize, Serialize};
use serde_json::{json, Value};

use crate::engine::{fingerprint_json, Ctx, Outcome, Plan, Property, Tier};
use crate::props::c08;
use crate::qgen::QGen;
use crate::rank::{close, close64};
use crate::scoreworld::{self, World, WorldOpts};
use crate::sut;

/// Result of comparing two aggregation responses.
#[derive(Clone, Copy, Debug, PartialEq, Eq)]
pub enum AggEq {
  Same,
  /// equal except that some score-sorted `top_hits` list holds other documents at positions whose
  /// scores are within the f32 score tolerance in both responses (a near tie decided by rounding)
  NearTie,
  Different,
}

impl AggEq {
  fn and(self, o: AggEq) -> AggEq {
    match (self, o) {
      (AggEq::Different, _) | (_, AggEq::Different) => AggEq::Different,
      (AggEq::NearTie, _) | (_, AggEq::NearTie) => AggEq::NearTie,
      _ => AggEq::Same,
    }
  }
}

fn num_close(x: &serde_json::Number, y: &serde_json::Number) -> bool {
  if let (Some(i), Some(j)) = (x.as_i64(), y.as_i64()) {
    return i == j;
  }
  match (x.as_f64(), y.as_f64()) {
    (Some(f), Some(g)) => close64(f, g),
    _ => x == y,
  }
}

/// hit scores are f32 sums whose order depends on the execution strategy and on hash order
/// (DESIGN §8): they are compared with the f32 score tolerance, not as f64 aggregates
fn score_close(a: &Value, b: &Value) -> bool {
  match (a.as_f64(), b.as_f64()) {
    (Some(f), Some(g)) => close(f as f32, g as f32),
    _ => a == b,
  }
}

fn is_top_hits(m: &serde_json::Map<String, Value>) -> bool {
  m.get("type").and_then(|t| t.as_str()) == Some("top_hits") && m.get("hits").map(|h| h.is_array()).unwrap_or(false)
}

/// one `top_hits` hit against another: everything but the score exact, the score within the f32 tolerance
fn hit_close(a: &Value, b: &Value) -> bool {
  match (a, b) {
    (Value::Object(x), Value::Object(y)) => x.len() == y.len() && x.iter().all(|(k, v)| y.get(k).map(|w| if k == "score" { score_close(v, w) } else { v == w }).unwrap_or(false)),
    _ => a == b,
  }
}

thread_local! {
  /// (document in the first response, document in the second, is the first one also in the second list, is the
  /// second one also in the first list) of every position pardoned as a near tie by the last comparisons
  static PARDONED: std::cell::RefCell<Vec<(String, String, bool, bool)>> = const { std::cell::RefCell::new(Vec::new()) };
}

/// the pairs pardoned since the last call
pub fn take_pardoned() -> Vec<(String, String, bool, bool)> {
  PARDONED.with(|p| std::mem::take(&mut *p.borrow_mut()))
}

fn top_hits_cmp(a: &serde_json::Map<String, Value>, b: &serde_json::Map<String, Value>, score_ties: bool) -> AggEq {
  // every member but the hit list is exact (total, type)
  if a.len() != b.len() || !a.iter().all(|(k, v)| k == "hits" || b.get(k) == Some(v)) {
    return AggEq::Different;
  }
  let (ha, hb) = (a["hits"].as_array().unwrap(), b.get("hits").and_then(|h| h.as_array()).map(|v| v.as_slice()).unwrap_or(&[]));
  if ha.len() != hb.len() {
    return AggEq::Different;
  }
  let mut res = AggEq::Same;
  for (x, y) in ha.iter().zip(hb.iter()) {
    if hit_close(x, y) {
      continue;
    }
    // the tie rule of DESIGN §8: when the list is ordered by a key that uses _score, the position may
    // hold another document provided the scores at the position agree within tolerance and every
    // document present in both lists carries the same score (within tolerance) in both
    if !score_ties || x["doc_id"] == y["doc_id"] || !score_close(&x["score"], &y["score"]) {
      return AggEq::Different;
    }
    let x_in_b = hb.iter().any(|h| h["doc_id"] == x["doc_id"]);
    let y_in_a = ha.iter().any(|h| h["doc_id"] == y["doc_id"]);
    PARDONED.with(|p| p.borrow_mut().push((x["doc_id"].as_str().unwrap_or("").to_string(), y["doc_id"].as_str().unwrap_or("").to_string(), x_in_b, y_in_a)));
    res = AggEq::NearTie;
  }
  if res == AggEq::NearTie {
    for x in ha.iter() {
      if let Some(y) = hb.iter().find(|y| y["doc_id"] == x["doc_id"]) {
        if !score_close(&x["score"], &y["score"]) {
          return AggEq::Different;
        }
      }
    }
  }
  res
}

/// Structural comparison of two aggregation (or suggest) responses: counts, keys and ids exact, f64
/// aggregates within 1e-9 relative, `top_hits` hit scores within the f32 score tolerance (1e-5
/// relative). `score_ties` says that some `top_hits` of the request orders by `_score`, so that
/// positions of its list may be swapped among near-tied documents (reported as `NearTie`).
pub fn agg_cmp(a: &Value, b: &Value, score_ties: bool) -> AggEq {
  match (a, b) {
    (Value::Number(x), Value::Number(y)) => {
      if num_close(x, y) {
        AggEq::Same
      } else {
        AggEq::Different
      }
    }
    (Value::Array(x), Value::Array(y)) => {
      if x.len() != y.len() {
        return AggEq::Different;
      }
      x.iter().zip(y.iter()).fold(AggEq::Same, |acc, (p, q)| if acc == AggEq::Different { acc } else { acc.and(agg_cmp(p, q, score_ties)) })
    }
    (Value::Object(x), Value::Object(y)) => {
      if is_top_hits(x) {
        return top_hits_cmp(x, y, score_ties);
      }
      if x.len() != y.len() {
        return AggEq::Different;
      }
      x.iter().fold(AggEq::Same, |acc, (k, v)| {
        if acc == AggEq::Different {
          return acc;
        }
        match y.get(k) {
          Some(w) => acc.and(agg_cmp(v, w, score_ties)),
          None => AggEq::Different,
        }
      })
    }
    _ => {
      if a == b {
        AggEq::Same
      } else {
        AggEq::Different
      }
    }
  }
}

/// strict form: the same documents at the same positions everywhere
pub fn json_close(a: &Value, b: &Value) -> bool {
  agg_cmp(a, b, false) == AggEq::Same
}

fn token_bag(d: &Value, field: &str) -> Vec<String> {
  let mut t: Vec<String> = match d.get(field) {
    Some(Value::String(s)) => s.split_whitespace().map(|w| w.to_lowercase()).collect(),
    Some(Value::Array(a)) => a.iter().filter_map(|v| v.as_str()).flat_map(|s| s.split_whitespace().map(|w| w.to_lowercase()).collect::<Vec<_>>()).collect(),
    _ => Vec::new(),
  };
  t.sort();
  t
}

/// same segment, same token multisets in body and title, bit-identical scores in the base response
fn exact_tie(live: &[(String, Value, usize, usize)], base_scores: &std::collections::HashMap<String, u32>, x: &str, y: &str) -> bool {
  let (Some(a), Some(b)) = (live.iter().find(|l| l.0 == x), live.iter().find(|l| l.0 == y)) else { return false };
  let (Some(sa), Some(sb)) = (base_scores.get(x), base_scores.get(y)) else { return false };
  a.2 == b.2 && sa == sb && token_bag(&a.1, "body") == token_bag(&b.1, "body") && token_bag(&a.1, "title") == token_bag(&b.1, "title")
}

/// bit-identical base scores although `x` precedes `y` in (segment, document) order
fn base_prefers_later(live: &[(String, Value, usize, usize)], base_scores: &std::collections::HashMap<String, u32>, x: &str, y: &str) -> bool {
  let (Some(a), Some(b)) = (live.iter().find(|l| l.0 == x), live.iter().find(|l| l.0 == y)) else { return false };
  let (Some(sa), Some(sb)) = (base_scores.get(x), base_scores.get(y)) else { return false };
  sa == sb && (a.2, a.3) < (b.2, b.3)
}

/// every `top_hits` of the tree orders by score descending only (default or explicit) and has no `from`
fn all_top_hits_plain(aggs: &Value) -> bool {
  match aggs {
    Value::Object(m) => {
      if m.get("type").and_then(|t| t.as_str()) == Some("top_hits") {
        let from0 = m.get("from").and_then(|f| f.as_u64()).unwrap_or(0) == 0;
        let plain = match m.get("sort").and_then(|s| s.as_array()) {
          None => true,
          Some(a) => a.is_empty() || (a.len() == 1 && a[0]["field"] == "_score" && a[0].get("order").map(|o| o == "desc").unwrap_or(true)),
        };
        return from0 && plain;
      }
      m.values().all(all_top_hits_plain)
    }
    Value::Array(a) => a.iter().all(all_top_hits_plain),
    _ => true,
  }
}

/// the response with the hit list of every `top_hits` blanked (its `total` stays)
pub fn without_top_hits_lists(v: &Value) -> Value {
  match v {
    Value::Object(m) => {
      let th = is_top_hits(m);
      Value::Object(m.iter().map(|(k, x)| (k.clone(), if th && k == "hits" { Value::Null } else { without_top_hits_lists(x) })).collect())
    }
    Value::Array(a) => Value::Array(a.iter().map(without_top_hits_lists).collect()),
    _ => v.clone(),
  }
}

/// does some `top_hits` of the aggregation tree order by `_score` (explicitly, or by its default sort)?
pub fn top_hits_orders_by_score(aggs: &Value) -> bool {
  match aggs {
    Value::Object(m) => {
      if m.get("type").and_then(|t| t.as_str()) == Some("top_hits") {
        match m.get("sort").and_then(|s| s.as_array()) {
          None => return true,
          Some(keys) => {
            if keys.is_empty() || keys.iter().any(|k| k["field"] == "_score") {
              return true;
            }
          }
        }
      }
      m.values().any(top_hits_orders_by_score)
    }
    Value::Array(a) => a.iter().any(top_hits_orders_by_score),
    _ => false,
  }
}

const KW: &[&str] = &["tag", "cat"];
const NUM: &[&str] = &["year", "price", "rank"];

fn metric() -> BoxedStrategy<Value> {
  prop_oneof![
    (select(vec!["stats", "extended_stats", "value_count"]), select(NUM.to_vec()), proptest::option::weighted(0.3, 0i64..3)).prop_map(|(t, f, m)| {
      let mut v = json!({"type": t, "field": f});
      if let Some(m) = m {
        v["missing"] = json!(m);
      }
      v
    }),
    (select(vec!["tag", "cat", "year", "price"]), proptest::option::weighted(0.3, Just(json!("zz")))).prop_map(|(f, _m)| json!({"type": "cardinality", "field": f})),
    (select(NUM.to_vec()), proptest::option::of(vec(select(vec![0.0f64, 25.0, 50.0, 75.0, 90.0, 100.0]), 1..4))).prop_map(|(f, p)| {
      let mut v = json!({"type": "percentiles", "field": f});
      if let Some(p) = p {
        v["percents"] = json!(p);
      }
      v
    }),
    (select(NUM.to_vec()), vec(select(vec![0.0f64, 1.0, 2.0, 2.5, 10.0]), 1..3)).prop_map(|(f, vals)| json!({"type": "percentile_ranks", "field": f, "values": vals})),
    (1usize..4, 0usize..3, scoreworld::sort_plan(2)).prop_map(|(size, from, sort)| json!({"type": "top_hits", "size": size, "from": from, "sort": sort})),
    // score-ordered top_hits (default sort): which of several exactly tied documents it lists
    (1usize..4, 0usize..2, prop_oneof![Just(json!([])), Just(json!([{"field": "_score", "order": "desc"}]))]).prop_map(|(size, from, sort)| json!({"type": "top_hits", "size": size, "from": from, "sort": sort})),
  ]
  .boxed()
}

pub fn agg_tree(depth: usize) -> BoxedStrategy<Value> {
  if depth == 0 {
    return metric();
  }
  let sub = || proptest::option::weighted(0.5, agg_tree(depth - 1));
  let with_sub = |mut v: Value, s: Option<Value>| {
    if let Some(s) = s {
      v["aggs"] = json!({"s": s});
    }
    v
  };
  prop_oneof![
    3 => metric(),
    3 => (select(KW.to_vec()), proptest::option::of(1usize..4), proptest::option::weighted(0.3, 1u64..4), proptest::option::weighted(0.3, Just("none")), sub()).prop_map(move |(f, size, mdc, missing, s)| {
      let mut v = json!({"type": "terms", "field": f});
      if let Some(x) = size { v["size"] = json!(x); }
      if let Some(x) = mdc { v["min_doc_count"] = json!(x); }
      if let Some(x) = missing { v["missing"] = json!(x); }
      with_sub(v, s)
    }),
    1 => (select(KW.to_vec()), proptest::option::of(1u64..3), sub()).prop_map(move |(f, mdc, s)| {
      let mut v = json!({"type": "rare_terms", "field": f});
      if let Some(x) = mdc { v["max_doc_count"] = json!(x); }
      with_sub(v, s)
    }),
    2 => (select(NUM.to_vec()), any::<bool>(), sub()).prop_map(move |(f, keyed, s)| {
      with_sub(json!({"type": "range", "field": f, "keyed": keyed, "ranges": [{"to": 1.0}, {"from": 1.0, "to": 3.0}, {"key": "big", "from": 3.0}]}), s)
    }),
    2 => (select(NUM.to_vec()), select(vec![0.5f64, 1.0, 2.0]), proptest::option::weighted(0.3, select(vec![0.0f64, 0.25])), proptest::option::weighted(0.3, 0u64..3), proptest::option::weighted(0.3, Just(json!({"min": -1.0, "max": 4.0}))), sub()).prop_map(move |(f, interval, offset, mdc, eb, s)| {
      let mut v = json!({"type": "histogram", "field": f, "interval": interval});
      if let Some(x) = offset { v["offset"] = json!(x); }
      if let Some(x) = mdc { v["min_doc_count"] = json!(x); }
      if let Some(x) = eb { v["extended_bounds"] = x; }
      with_sub(v, s)
    }),
    1 => (c08::root_filter(&scoreworld::schema(), 1), sub()).prop_map(move |(f, s)| with_sub(json!({"type": "filter", "filter": f}), s)),
    1 => (select(KW.to_vec()), select(NUM.to_vec()), 1usize..4, any::<bool>(), sub()).prop_map(move |(k, n, size, two, s)| {
      let mut sources = vec![json!({"type": "terms", "name": "k", "field": k})];
      if two {
        sources.push(json!({"type": "histogram", "name": "h", "field": n, "interval": 1.0}));
      }
      with_sub(json!({"type": "composite", "sources": sources, "size": size}), s)
    }),
  ]
  .boxed()
}

#[derive(Clone, Debug, Serialize, Deserialize)]
pub struct Variation {
  pub limit: usize,
  pub return_hits: bool,
  pub sort: Vec<Value>,
  pub execution: String,
  pub block_size: Option<usize>,
  pub explain: bool,
  pub profile: bool,
  pub rescore: Option<Value>,
  /// follow the cursor for this many further pages and check every page
  pub walk: usize,
}

#[derive(Clone, Debug, Serialize, Deserialize)]
pub struct Case {
  pub world: World,
  pub query: Value,
  pub filter: Option<Value>,
  pub aggs: Value,
  pub suggest: Option<Value>,
  pub variations: Vec<Variation>,
}

pub struct C13;

pub const SIG_CURSOR: &str = "aggregations-only-cover-documents-after-the-cursor";
pub const SIG_MATCHONLY: &str = "top-hits-scores-depend-on-request-sort";

fn has_type(q: &Value, ty: &str) -> bool {
  match q {
    Value::Object(m) => m.get("type").and_then(|t| t.as_str()) == Some(ty) || m.values().any(|v| has_type(v, ty)),
    Value::Array(a) => a.iter().any(|v| has_type(v, ty)),
    _ => false,
  }
}

impl Property for C13 {
  type Case = Case;
  const ID: &'static str = "C13";
  fn rule() -> String {
    "cases = corpus (5-60 docs, 1-4 segments, deletions), query, optional filter, an aggregation tree (depth<=2 incl. top_hits, composite, metrics) and optionally a completion suggest request; a base response (limit covering all matches, bm25, default sort) is compared with 5 variations: limit 1/3/n, return_hits=false, sort plans, wand/bmw with block sizes, explain/profile, rescore, and every page of a cursor walk; aggregations and suggest must be equal (counts, keys and document ids exact, f64 aggregates 1e-9 relative, top_hits hit scores - f32 sums whose order depends on the execution strategy - 1e-5 relative; a score-ordered top_hits list may swap documents whose scores are within that tolerance, counted as class top_hits-near-tie-not-judged - unless the swap is between exact ties: two documents of one segment with the same token multisets and bit-identical base scores, or, for a plain score-descending top_hits without from, a base list that holds the later of two documents with bit-identical base scores and lacks the earlier one). Non-trivial = a walk of >=2 pages with a metric or top_hits in the tree, or base and variation differ in whether scores are computed (score sort vs field sort); distinct = hash of (aggs, variation, query)".into()
  }
  fn plan(tier: Tier) -> Plan {
    Plan { workers: 16, cases_per_worker: tier.pick(1500, 60000) }
  }
  fn shrink_iters() -> u32 {
    800
  }
  fn strategy(_tier: Tier) -> BoxedStrategy<Case> {
    let schema = scoreworld::schema();
    let g = QGen::new(&schema, 6, false);
    let w = scoreworld::world(WorldOpts { min_docs: 5, max_docs: 60, max_commits: 4, deletes: true, ties: true, vocab: 6 });
    let query = prop_oneof![1 => Just(json!({"type": "match_all"})), 4 => g.tree(2)];
    let rescore = (g.tree(1), 0usize..12, select(vec!["total", "multiply", "max"])).prop_map(|(q, w, m)| json!({"window_size": w, "query": q, "score_mode": m}));
    let variation = (select(vec![1usize, 2, 3, 5, 100]), prop::bool::weighted(0.85), scoreworld::sort_plan(2), select(vec!["bm25", "wand", "bmw"]), proptest::option::of(1usize..40), any::<bool>(), any::<bool>(), proptest::option::weighted(0.25, rescore), 0usize..4)
      .prop_map(|(limit, return_hits, sort, execution, block_size, explain, profile, rescore, walk)| Variation { limit, return_hits, sort, execution: execution.to_string(), block_size, explain, profile, rescore, walk });
    let suggest = (select(vec!["body", "title"]), select(vec!["", "r", "ru", "f", "qu", "x"]), 1usize..6, proptest::option::weighted(0.3, Just(json!({"max_edits": 1, "prefix_length": 1})))).prop_map(|(f, p, size, fz)| {
      let mut v = json!({"type": "completion", "field": f, "prefix": p, "size": size});
      if let Some(fz) = fz {
        v["fuzzy"] = fz;
      }
      v
    });
    (w, query, proptest::option::weighted(0.25, c08::root_filter(&schema, 1)), agg_tree(2), proptest::option::weighted(0.4, suggest), vec(variation, 5))
      .prop_map(|(world, query, filter, aggs, suggest, variations)| Case { world, query, filter, aggs, suggest, variations })
      .boxed()
  }
  fn run(case: &Case, ctx: &Ctx) -> Outcome {
    let mut out = Outcome::new();
    let built = match case.world.build("c13") {
      Ok(b) => b,
      Err(e) => {
        out.fail("corpus-build-failed", format!("{e:#}"));
        return out;
      }
    };
    let reader = match built.idx.reader() {
      Ok(r) => r,
      Err(e) => {
        out.fail("reader-open-failed", format!("{e:#}"));
        return out;
      }
    };
    let n = case.world.docs.len();
    let mut base = json!({"query": case.query, "limit": n + 5, "execution": "bm25", "aggs": {"a": case.aggs}});
    if let Some(f) = &case.filter {
      base["filter"] = f.clone();
    }
    if let Some(s) = &case.suggest {
      base["suggest"] = json!({"s": s});
    }
    let base_res = match sut::search(&reader, base.clone()) {
      Ok(r) => r,
      Err(_) => {
        out.class("request-rejected");
        out.evals = 1;
        return out;
      }
    };
    let base_aggs = serde_json::to_value(&base_res.aggregations).unwrap();
    let base_scores: std::collections::HashMap<String, u32> = crate::rank::hits(&base_res).into_iter().map(|h| (h.id, h.score.to_bits())).collect();
    // the query has no scored term: every hit of the (score-sorted, scored) base request carries a default score
    let base_const = base_res.hits.iter().all(|h| h.score == 0.0) || base_res.hits.iter().all(|h| h.score == 1.0);
    let base_sug = serde_json::to_value(&base_res.suggest).unwrap();
    let has_metric = ["stats", "extended_stats", "value_count", "top_hits", "percentiles", "cardinality"].iter().any(|t| has_type(&case.aggs, t));
    let has_top_hits = has_type(&case.aggs, "top_hits");
    let score_ties = top_hits_orders_by_score(&case.aggs);
    let plain_score_top_hits = all_top_hits_plain(&case.aggs);
    let known_cursor = ctx.is_known(Self::ID, SIG_CURSOR);
    let known_matchonly = ctx.is_known(Self::ID, SIG_MATCHONLY);
    for v in case.variations.iter() {
      let mut req = base.clone();
      req["limit"] = json!(v.limit);
      req["return_hits"] = json!(v.return_hits);
      req["sort"] = json!(v.sort);
      req["execution"] = json!(v.execution);
      if let Some(b) = v.block_size {
        req["bmw_block_size"] = json!(b);
      }
      req["explain"] = json!(v.explain);
      req["profile"] = json!(v.profile);
      if let Some(r) = &v.rescore {
        req["rescore"] = r.clone();
      }
      let score_sort = v.sort.is_empty() || v.sort.iter().any(|k| k["field"] == "_score");
      let mut cursor: Option<String> = None;
      let mut page = 0usize;
      loop {
        out.evals += 1;
        let mut r = req.clone();
        if let Some(c) = &cursor {
          r["cursor"] = json!(c);
        }
        let res = match sut::search(&reader, r.clone()) {
          Ok(x) => x,
          Err(e) => {
            if page == 0 {
              // a variation the engine rejects outright (e.g. cursor with return_hits=false) is not a paging dependence
              out.class("variation-rejected");
              break;
            }
            out.fail("cursor-walk-error", format!("page {page}: {e:#}; request {r}"));
            return out;
          }
        };
        let aggs = serde_json::to_value(&res.aggregations).unwrap();
        let sug = serde_json::to_value(&res.suggest).unwrap();
        let _ = take_pardoned();
        let mut cmp = agg_cmp(&aggs, &base_aggs, score_ties);
        if cmp == AggEq::NearTie {
          // a near tie is a rounding matter between documents whose scores are computed from different inputs and
          // differ in the last bits. Two cases are exact ties instead, decided by the tie-break alone, and a
          // genuine swap there (each list holds a document the other list lacks) is a dependence on the request:
          // (B) both documents live in one segment with the same token multisets in every text field and
          //     bit-identical scores in the base response - identical scoring inputs, equal scores in every strategy;
          // (A) a plain score-descending top_hits without `from`: the base (exhaustive) response lists y and not x
          //     although their base scores are bit-identical and x comes first in (segment, document) order
          for (x, y, x_in_base, y_in_var) in take_pardoned() {
            if x_in_base || y_in_var {
              continue;
            }
            if exact_tie(&built.live, &base_scores, &x, &y) || (plain_score_top_hits && base_prefers_later(&built.live, &base_scores, &x, &y)) {
              out.class("top_hits-exact-tie-judged");
              cmp = AggEq::Different;
            }
          }
        }
        if cmp == AggEq::NearTie {
          // not judged: which of two documents whose scores differ by f32 rounding comes first
          out.class("top_hits-near-tie-not-judged");
        }
        if cmp == AggEq::Different {
          let detail = format!("aggregations differ from the base request: {aggs} vs base {base_aggs}; variation request {r}");
          if page > 0 {
            out.fail(SIG_CURSOR, detail);
            if known_cursor {
              out.excluded_known += 1;
              break;
            }
          } else if has_top_hits && v.explain && base_const && ctx.is_known("C20", crate::props::c20::SIG_EXPLAIN_SCORING) && agg_cmp(&without_top_hits_lists(&aggs), &without_top_hits_lists(&base_aggs), false) == AggEq::Same {
            // the listed C20 finding (explain forces scoring) seen through top_hits scores: only the
            // hit lists of top_hits differ, every count, key and metric is equal
            out.excluded_known += 1;
            out.class("difference-explained-by-C20-known-finding");
            break;
          } else if has_top_hits && !score_sort {
            out.fail(SIG_MATCHONLY, detail);
            if known_matchonly {
              out.excluded_known += 1;
              break;
            }
          } else {
            out.fail("aggregations-depend-on-request", detail);
          }
          return out;
        }
        if !json_close(&sug, &base_sug) {
          out.fail("suggest-depends-on-request", format!("suggest differs: {sug} vs base {base_sug}; variation request {r}"));
          return out;
        }
        page += 1;
        // (cursor walks are not combined with rescore: how a cursor addresses rescored hits is unspecified)
        if page > v.walk || !v.return_hits || v.rescore.is_some() {
          break;
        }
        match res.next_cursor {
          Some(c) => cursor = Some(c),
          None => break,
        }
      }
      if (page >= 2 && has_metric) || !score_sort {
        out.nontrivial(fingerprint_json(&(&case.aggs, v, &case.query)));
      }
      if page >= 2 {
        out.class("walked>=2");
      }
    }
    out
  }
}

#[cfg(test)]
mod tests {
  use super::*;

  fn th(hits: &[(&str, f64)], total: u64) -> Value {
    json!({"a": {"type": "top_hits", "total": total, "hits": hits.iter().map(|(d, s)| json!({"doc_id": d, "score": s, "fields": null, "snippet": null})).collect::<Vec<_>>()}})
  }

  #[test]
  fn one_ulp_of_an_f32_score_is_not_a_difference() {
    // the pair observed on the unchanged tree (bm25 vs bmw), VERIF_SEED=1
    let a = th(&[("d00025", 10.968074798583984)], 3);
    let b = th(&[("d00025", 10.968073844909668)], 3);
    assert_eq!(agg_cmp(&a, &b, false), AggEq::Same);
    assert!(json_close(&a, &b));
  }

  #[test]
  fn gross_score_changes_and_counts_are_differences() {
    let a = th(&[("d1", 2.5)], 3);
    assert_eq!(agg_cmp(&a, &th(&[("d1", 0.0)], 3), true), AggEq::Different);
    assert_eq!(agg_cmp(&a, &th(&[("d1", 1.0)], 3), true), AggEq::Different);
    assert_eq!(agg_cmp(&a, &th(&[("d1", 2.5001)], 3), true), AggEq::Different);
    assert_eq!(agg_cmp(&a, &th(&[("d1", 2.5)], 2), true), AggEq::Different);
    assert_eq!(agg_cmp(&a, &th(&[], 3), true), AggEq::Different);
  }

  #[test]
  fn other_document_only_among_near_ties_of_a_score_ordered_list() {
    let a = th(&[("d1", 2.5000002), ("d2", 2.5)], 5);
    let b = th(&[("d2", 2.5), ("d1", 2.5)], 5);
    assert_eq!(agg_cmp(&a, &b, true), AggEq::NearTie);
    // not when no top_hits of the request orders by _score
    assert_eq!(agg_cmp(&a, &b, false), AggEq::Different);
    // not when the scores at the position are apart
    assert_eq!(agg_cmp(&th(&[("d1", 2.5)], 5), &th(&[("d2", 2.4)], 5), true), AggEq::Different);
    // not when a document of both lists carries different scores
    assert_eq!(agg_cmp(&th(&[("d1", 2.5), ("d2", 2.5)], 5), &th(&[("d2", 2.5), ("d1", 2.5)], 5), true), AggEq::NearTie);
    assert_eq!(agg_cmp(&th(&[("d1", 2.5), ("d2", 1.0)], 5), &th(&[("d3", 2.5), ("d1", 1.0)], 5), true), AggEq::Different);
  }

  #[test]
  fn f64_aggregates_keep_the_tight_tolerance() {
    let a = json!({"a": {"type": "stats", "sum": 10.968074798583984, "count": 3}});
    let b = json!({"a": {"type": "stats", "sum": 10.968073844909668, "count": 3}});
    assert_eq!(agg_cmp(&a, &b, true), AggEq::Different);
    assert_eq!(agg_cmp(&a, &a, true), AggEq::Same);
  }

  #[test]
  fn score_order_detection() {
    assert!(top_hits_orders_by_score(&json!({"type": "terms", "field": "tag", "aggs": {"s": {"type": "top_hits", "size": 1, "sort": []}}})));
    assert!(top_hits_orders_by_score(&json!({"type": "top_hits", "size": 1, "sort": [{"field": "tag"}, {"field": "_score"}]})));
    assert!(!top_hits_orders_by_score(&json!({"type": "top_hits", "size": 1, "sort": [{"field": "tag"}]})));
    assert!(!top_hits_orders_by_score(&json!({"type": "stats", "field": "year"})));
  }
}
