//! Shared generators: schemas, documents, vocabulary. Construction, not rejection.
use proptest::collection::vec;
use proptest::prelude::*;
use proptest::sample::select;
use serde::{Deserialize, Serialize};
use serde_json::{json, Map, Value};

#[derive(Clone, Debug, Serialize, Deserialize, PartialEq)]
pub struct TextSpec {
  pub name: String,
  pub analyzer: String,
  pub search_analyzer: Option<String>,
  pub stored: bool,
  pub indexed: bool,
  pub nullable: bool,
  #[serde(default)]
  pub saty: Option<(usize, usize)>,
}

#[derive(Clone, Debug, Serialize, Deserialize, PartialEq)]
pub struct KwSpec {
  pub name: String,
  pub stored: bool,
  pub indexed: bool,
  pub fast: bool,
  pub nullable: bool,
}

#[derive(Clone, Debug, Serialize, Deserialize, PartialEq)]
pub struct NumSpec {
  pub name: String,
  pub i64: bool,
  pub fast: bool,
  pub stored: bool,
  pub nullable: bool,
}

#[derive(Clone, Debug, Serialize, Deserialize, PartialEq)]
pub struct NestedSpec {
  pub name: String,
  pub nullable: bool,
  pub props: Vec<PropSpec>,
}

#[derive(Clone, Debug, Serialize, Deserialize, PartialEq)]
pub enum PropSpec {
  Text(TextSpec),
  Keyword(KwSpec),
  Numeric(NumSpec),
  Object(NestedSpec),
}

impl PropSpec {
  pub fn name(&self) -> &str {
    match self {
      PropSpec::Text(t) => &t.name,
      PropSpec::Keyword(k) => &k.name,
      PropSpec::Numeric(n) => &n.name,
      PropSpec::Object(o) => &o.name,
    }
  }
  pub fn nullable(&self) -> bool {
    match self {
      PropSpec::Text(t) => t.nullable,
      PropSpec::Keyword(k) => k.nullable,
      PropSpec::Numeric(n) => n.nullable,
      PropSpec::Object(o) => o.nullable,
    }
  }
}

#[derive(Clone, Debug, Serialize, Deserialize, PartialEq)]
pub struct SchemaSpec {
  pub doc_id_field: String,
  /// analyzer definitions in searchlite's JSON form
  pub analyzers: Vec<Value>,
  pub text: Vec<TextSpec>,
  pub keyword: Vec<KwSpec>,
  pub numeric: Vec<NumSpec>,
  pub nested: Vec<NestedSpec>,
}

fn text_json(t: &TextSpec) -> Value {
  let mut m = Map::new();
  m.insert("name".into(), json!(t.name));
  m.insert("analyzer".into(), json!(t.analyzer));
  if let Some(s) = &t.search_analyzer {
    m.insert("search_analyzer".into(), json!(s));
  }
  m.insert("stored".into(), json!(t.stored));
  m.insert("indexed".into(), json!(t.indexed));
  m.insert("nullable".into(), json!(t.nullable));
  if let Some((a, b)) = t.saty {
    m.insert("search_as_you_type".into(), json!({"min_gram": a, "max_gram": b}));
  }
  Value::Object(m)
}
fn kw_json(k: &KwSpec) -> Value {
  json!({"name": k.name, "stored": k.stored, "indexed": k.indexed, "fast": k.fast, "nullable": k.nullable})
}
fn num_json(n: &NumSpec) -> Value {
  json!({"name": n.name, "i64": n.i64, "fast": n.fast, "stored": n.stored, "nullable": n.nullable})
}
fn nested_json(n: &NestedSpec) -> Value {
  let props: Vec<Value> = n
    .props
    .iter()
    .map(|p| {
      let (ty, mut v) = match p {
        PropSpec::Text(t) => ("text", text_json(t)),
        PropSpec::Keyword(k) => ("keyword", kw_json(k)),
        PropSpec::Numeric(x) => ("numeric", num_json(x)),
        PropSpec::Object(o) => ("object", nested_json(o)),
      };
      v.as_object_mut().unwrap().insert("type".into(), json!(ty));
      v
    })
    .collect();
  json!({"name": n.name, "nullable": n.nullable, "fields": props})
}

impl SchemaSpec {
  pub fn to_json(&self) -> Value {
    json!({
      "doc_id_field": self.doc_id_field,
      "analyzers": self.analyzers,
      "text_fields": self.text.iter().map(text_json).collect::<Vec<_>>(),
      "keyword_fields": self.keyword.iter().map(kw_json).collect::<Vec<_>>(),
      "numeric_fields": self.numeric.iter().map(num_json).collect::<Vec<_>>(),
      "nested_fields": self.nested.iter().map(nested_json).collect::<Vec<_>>(),
      "vector_fields": [],
    })
  }
  pub fn to_schema(&self) -> searchlite_core::Schema {
    serde_json::from_value(self.to_json()).expect("generated schema must deserialize")
  }
  /// the simplest useful schema
  pub fn simple() -> Self {
    SchemaSpec {
      doc_id_field: "_id".into(),
      analyzers: vec![],
      text: vec![TextSpec { name: "body".into(), analyzer: "default".into(), search_analyzer: None, stored: true, indexed: true, nullable: false, saty: None }],
      keyword: vec![KwSpec { name: "tag".into(), stored: true, indexed: true, fast: true, nullable: false }],
      numeric: vec![NumSpec { name: "year".into(), i64: true, fast: true, stored: true, nullable: false }],
      nested: vec![],
    }
  }
  /// Is compaction legal for this schema (every indexed/fast leaf is stored)?
  pub fn compactable(&self) -> bool {
    fn nested_ok(n: &NestedSpec) -> bool {
      n.props.iter().all(|p| match p {
        PropSpec::Text(t) => !t.indexed || t.stored,
        PropSpec::Keyword(k) => !(k.indexed || k.fast) || k.stored,
        PropSpec::Numeric(x) => x.stored,
        PropSpec::Object(o) => nested_ok(o),
      })
    }
    self.text.iter().all(|t| !t.indexed || t.stored)
      && self.keyword.iter().all(|k| !(k.indexed || k.fast) || k.stored)
      && self.numeric.iter().all(|n| n.stored)
      && self.nested.iter().all(nested_ok)
  }
}

// ---------------------------------------------------------------------------------
// vocabulary

pub const WORDS: &[&str] = &[
  "rust", "ruby", "rubber", "search", "engine", "fast", "quick", "brown", "fox", "the", "and", "running", "runs", "run", "jumps", "jumped", "lazy", "dog", "index", "query", "alpha", "beta", "gamma", "delta", "searching", "engines", "a", "of", "tokyo", "cafe",
];
pub const ODD_WORDS: &[&str] = &["Rust", "RUBY", "Quick", "café", "naïve", "東京", "straße", "x1", "go2", "ÉCOLE", "🚀", "über"];
pub const SEPS: &[&str] = &[" ", " ", " ", ", ", ". ", " - ", "  ", "! ", "\n", "/"];
pub const KEYWORDS: &[&str] = &["red", "Red", "RED", "green", "blue", "Blue", "x", "y", "z", "Éa", "éa", "two words", ""];

#[derive(Clone, Copy, Debug)]
pub struct TextOpts {
  pub max_words: usize,
  pub odd: bool,
  pub vocab: usize,
}

pub fn word(odd: bool, vocab: usize) -> BoxedStrategy<String> {
  let n = vocab.min(WORDS.len()).max(1);
  let base = select(WORDS[..n].to_vec()).prop_map(|s| s.to_string());
  if odd {
    prop_oneof![8 => base, 2 => select(ODD_WORDS.to_vec()).prop_map(|s| s.to_string())].boxed()
  } else {
    base.boxed()
  }
}

pub fn text_value(o: TextOpts) -> BoxedStrategy<String> {
  vec((word(o.odd, o.vocab), select(SEPS.to_vec())), 0..=o.max_words)
    .prop_map(|parts| {
      let mut s = String::new();
      for (i, (w, sep)) in parts.iter().enumerate() {
        if i > 0 {
          s.push_str(sep);
        }
        s.push_str(w);
      }
      s
    })
    .boxed()
}

pub fn keyword_value() -> BoxedStrategy<String> {
  select(KEYWORDS.to_vec()).prop_map(|s| s.to_string()).boxed()
}

pub fn i64_value(extremes: bool) -> BoxedStrategy<i64> {
  prop_oneof![
    10 => -3i64..8,
    2 => select(vec![0i64, 1, -1, 1000, -1000, 1_700_000_000_000]),
    1 => select(if extremes { vec![i64::MAX, i64::MIN, i64::MAX - 1, 9_007_199_254_740_993] } else { vec![12i64, -12, 100] }),
  ]
  .boxed()
}

pub fn f64_value(extremes: bool) -> BoxedStrategy<f64> {
  prop_oneof![
    8 => (-6i32..16).prop_map(|v| v as f64 * 0.5),
    2 => select(vec![0.0f64, -0.0, 0.1, 0.30000000000000004, 1e-9, 2.5e10, -7.25]),
    1 => select(if extremes { vec![1e300, -1e300, f64::MIN_POSITIVE, 123456789.125] } else { vec![123456789.125, -99.5, 0.75] }),
  ]
  .boxed()
}

/// scalar | array | (absent handled by caller)
fn multi<T: Clone + std::fmt::Debug + 'static>(s: BoxedStrategy<T>, conv: fn(T) -> Value, max: usize) -> BoxedStrategy<Value> {
  prop_oneof![
    6 => s.clone().prop_map(conv),
    3 => vec(s.clone(), 0..=max).prop_map(move |v| Value::Array(v.into_iter().map(conv).collect())),
  ]
  .boxed()
}

#[derive(Clone, Copy, Debug)]
pub struct DocOpts {
  pub text: TextOpts,
  pub max_multi: usize,
  /// probability-ish weights: how often a top-level field is absent (out of 10)
  pub absent: u32,
  pub max_nested_objs: usize,
  /// allow null members inside arrays of nullable nested fields
  pub null_items: bool,
  /// allow extreme numeric values (i64::MAX, 1e300, ...)
  pub extremes: bool,
}

impl Default for DocOpts {
  fn default() -> Self {
    DocOpts { text: TextOpts { max_words: 8, odd: true, vocab: 30 }, max_multi: 3, absent: 2, max_nested_objs: 3, null_items: true, extremes: true }
  }
}

fn maybe(absent: u32, nullable: bool, s: BoxedStrategy<Value>) -> BoxedStrategy<Option<Value>> {
  let absent = absent.min(9);
  if nullable {
    prop_oneof![
      absent => Just(None),
      1 => Just(Some(Value::Null)),
      (10 - absent) => s.prop_map(Some),
    ]
    .boxed()
  } else if absent == 0 {
    s.prop_map(Some).boxed()
  } else {
    prop_oneof![
      absent => Just(None),
      (10 - absent) => s.prop_map(Some),
    ]
    .boxed()
  }
}

fn text_field_value(o: DocOpts) -> BoxedStrategy<Value> {
  multi(text_value(o.text), Value::String, o.max_multi)
}
fn kw_field_value(o: DocOpts) -> BoxedStrategy<Value> {
  multi(keyword_value(), Value::String, o.max_multi)
}
fn num_field_value(i: bool, o: DocOpts) -> BoxedStrategy<Value> {
  if i {
    multi(i64_value(o.extremes), |v| json!(v), o.max_multi)
  } else {
    // f64 fields also accept integer JSON numbers
    prop_oneof![
      8 => multi(f64_value(o.extremes), |v| json!(v), o.max_multi),
      1 => (-5i64..5).prop_map(|v| json!(v)),
    ]
    .boxed()
  }
}

fn nested_object(n: &NestedSpec, o: DocOpts) -> BoxedStrategy<Value> {
  let mut strat: BoxedStrategy<Vec<(String, Option<Value>)>> = Just(Vec::new()).boxed();
  for p in n.props.iter() {
    let name = p.name().to_string();
    let nullable = p.nullable();
    // non-nullable properties must be present; nullable ones may be null or missing
    let absent = if nullable { o.absent } else { 0 };
    let vs: BoxedStrategy<Option<Value>> = match p {
      PropSpec::Text(_) => maybe(absent, nullable, text_field_value(o)),
      PropSpec::Keyword(_) => maybe(absent, nullable, kw_field_value(o)),
      PropSpec::Numeric(x) => maybe(absent, nullable, num_field_value(x.i64, o)),
      PropSpec::Object(c) => maybe(absent, nullable, nested_value(c, o)),
    };
    strat = (strat, vs)
      .prop_map(move |(mut acc, v)| {
        acc.push((name.clone(), v));
        acc
      })
      .boxed();
  }
  strat
    .prop_map(|kvs| {
      let mut m = Map::new();
      for (k, v) in kvs {
        if let Some(v) = v {
          m.insert(k, v);
        }
      }
      Value::Object(m)
    })
    .boxed()
}

/// object | array of objects (with nulls only when the container is nullable)
pub fn nested_value(n: &NestedSpec, o: DocOpts) -> BoxedStrategy<Value> {
  let obj = nested_object(n, o);
  let item: BoxedStrategy<Value> = if n.nullable && o.null_items { prop_oneof![9 => obj.clone(), 1 => Just(Value::Null)].boxed() } else { obj.clone() };
  prop_oneof![
    3 => obj,
    6 => vec(item, 0..=o.max_nested_objs).prop_map(Value::Array),
  ]
  .boxed()
}

/// A schema-valid document body (without the id).
pub fn doc_body(schema: &SchemaSpec, o: DocOpts) -> BoxedStrategy<Map<String, Value>> {
  let mut strat: BoxedStrategy<Vec<(String, Option<Value>)>> = Just(Vec::new()).boxed();
  let mut push = |name: String, vs: BoxedStrategy<Option<Value>>| {
    let prev = std::mem::replace(&mut strat, Just(Vec::new()).boxed());
    strat = (prev, vs)
      .prop_map(move |(mut acc, v)| {
        acc.push((name.clone(), v));
        acc
      })
      .boxed();
  };
  for t in schema.text.iter() {
    push(t.name.clone(), maybe(o.absent, t.nullable, text_field_value(o)));
  }
  for k in schema.keyword.iter() {
    push(k.name.clone(), maybe(o.absent, k.nullable, kw_field_value(o)));
  }
  for n in schema.numeric.iter() {
    push(n.name.clone(), maybe(o.absent, n.nullable, num_field_value(n.i64, o)));
  }
  for n in schema.nested.iter() {
    push(n.name.clone(), maybe(o.absent, n.nullable, nested_value(n, o)));
  }
  strat
    .prop_map(|kvs| {
      let mut m = Map::new();
      for (k, v) in kvs {
        if let Some(v) = v {
          m.insert(k, v);
        }
      }
      m
    })
    .boxed()
}

pub fn with_id(schema: &SchemaSpec, id: &str, mut body: Map<String, Value>) -> Value {
  body.insert(schema.doc_id_field.clone(), json!(id));
  Value::Object(body)
}

pub fn doc_id(space: usize) -> BoxedStrategy<String> {
  (0..space.max(1)).prop_map(|i| format!("d{i}")).boxed()
}

// ---------------------------------------------------------------------------------
// schema generation

pub fn analyzer_menu() -> Vec<(String, Value)> {
  vec![
    ("ws".into(), json!({"name": "ws", "tokenizer": "whitespace"})),
    ("wslow".into(), json!({"name": "wslow", "tokenizer": "whitespace", "filters": [{"lowercase": true}]})),
    ("uni".into(), json!({"name": "uni", "tokenizer": "unicode"})),
    ("stop".into(), json!({"name": "stop", "tokenizer": "default", "filters": [{"stopwords": "en"}]})),
    ("stoplist".into(), json!({"name": "stoplist", "tokenizer": "default", "filters": [{"stopwords": ["fox", "rust"]}]})),
    ("stem".into(), json!({"name": "stem", "tokenizer": "default", "filters": [{"stemmer": "english"}]})),
    ("syn".into(), json!({"name": "syn", "tokenizer": "default", "filters": [{"synonyms": [{"from": ["quick"], "to": ["fast", "quick"]}, {"from": ["dog"], "to": ["hound"]}]}]})),
    ("full".into(), json!({"name": "full", "tokenizer": "unicode", "filters": [{"lowercase": true}, {"stopwords": "en"}, {"stemmer": "english"}]})),
  ]
}

#[derive(Clone, Copy, Debug)]
pub struct SchemaOpts {
  pub force_compactable: bool,
  pub allow_nested: bool,
  pub analyzers: bool,
  pub custom_id: bool,
  /// all keyword/numeric fields fast (for filter/sort/agg properties)
  pub force_fast: bool,
  pub max_text: usize,
  pub max_kw: usize,
  pub max_num: usize,
  pub nested_depth: usize,
}

impl Default for SchemaOpts {
  fn default() -> Self {
    SchemaOpts { force_compactable: false, allow_nested: true, analyzers: true, custom_id: true, force_fast: false, max_text: 2, max_kw: 2, max_num: 2, nested_depth: 2 }
  }
}

fn flags3() -> BoxedStrategy<(bool, bool, bool)> {
  // (stored, indexed, fast) biased to true
  (prop::bool::weighted(0.8), prop::bool::weighted(0.85), prop::bool::weighted(0.8)).boxed()
}

fn text_spec(name: String, o: SchemaOpts) -> BoxedStrategy<TextSpec> {
  let names: Vec<String> = if o.analyzers {
    let mut v = vec!["default".to_string(), "default".to_string()];
    v.extend(analyzer_menu().into_iter().map(|(n, _)| n));
    v
  } else {
    vec!["default".to_string()]
  };
  (select(names), flags3(), prop::bool::weighted(0.25))
    .prop_map(move |(analyzer, (stored, indexed, _), nullable)| {
      let stored = if o.force_compactable && indexed { true } else { stored };
      TextSpec { name: name.clone(), analyzer, search_analyzer: None, stored, indexed, nullable, saty: None }
    })
    .boxed()
}

fn kw_spec(name: String, o: SchemaOpts) -> BoxedStrategy<KwSpec> {
  (flags3(), prop::bool::weighted(0.25))
    .prop_map(move |((stored, indexed, fast), nullable)| {
      let fast = fast || o.force_fast;
      let stored = if o.force_compactable && (indexed || fast) { true } else { stored };
      KwSpec { name: name.clone(), stored, indexed, fast, nullable }
    })
    .boxed()
}

fn num_spec(name: String, is_i64: bool, o: SchemaOpts) -> BoxedStrategy<NumSpec> {
  (flags3(), prop::bool::weighted(0.25))
    .prop_map(move |((stored, _, fast), nullable)| {
      let fast = fast || o.force_fast;
      let stored = if o.force_compactable { true } else { stored };
      NumSpec { name: name.clone(), i64: is_i64, fast, stored, nullable }
    })
    .boxed()
}

pub fn nested_spec(name: String, depth: usize, o: SchemaOpts) -> BoxedStrategy<NestedSpec> {
  let kw = kw_spec("author".into(), o);
  let kw2 = kw_spec("label".into(), o);
  let num = num_spec("score".into(), true, o);
  let fnum = num_spec("rate".into(), false, o);
  let txt = text_spec("note".into(), SchemaOpts { analyzers: false, ..o });
  let child: BoxedStrategy<Option<NestedSpec>> = if depth > 1 {
    let child_name = match depth {
      3 => "reply",
      _ => "vote",
    };
    prop_oneof![1 => Just(None), 3 => nested_spec(child_name.into(), depth - 1, o).prop_map(Some)].boxed()
  } else {
    Just(None).boxed()
  };
  (kw, kw2, num, fnum, txt, child, prop::bool::weighted(0.2), vec(any::<bool>(), 5))
    .prop_map(move |(kw, kw2, num, fnum, txt, child, nullable, keep)| {
      let mut props = vec![PropSpec::Keyword(kw)];
      if keep[0] {
        props.push(PropSpec::Numeric(num));
      }
      if keep[1] {
        props.push(PropSpec::Keyword(kw2));
      }
      if keep[2] && keep[3] {
        props.push(PropSpec::Numeric(fnum));
      }
      if keep[4] && keep[3] {
        props.push(PropSpec::Text(txt));
      }
      if let Some(c) = child {
        props.push(PropSpec::Object(c));
      }
      NestedSpec { name: name.clone(), nullable, props }
    })
    .boxed()
}

pub fn schema(o: SchemaOpts) -> BoxedStrategy<SchemaSpec> {
  let text = (1..=o.max_text.max(1))
    .prop_flat_map(move |n| (0..n).map(|i| text_spec(["body", "title", "extra"][i % 3].to_string(), o)).collect::<Vec<_>>());
  let kw = (0..=o.max_kw).prop_flat_map(move |n| (0..n).map(|i| kw_spec(["tag", "cat", "kind"][i % 3].to_string(), o)).collect::<Vec<_>>());
  let num = (0..=o.max_num)
    .prop_flat_map(move |n| (0..n).map(|i| num_spec(["year", "price", "rank"][i % 3].to_string(), i % 2 == 0, o)).collect::<Vec<_>>());
  let nested: BoxedStrategy<Vec<NestedSpec>> = if o.allow_nested {
    prop_oneof![
      2 => Just(Vec::new()),
      3 => nested_spec("comment".into(), o.nested_depth.max(1), o).prop_map(|n| vec![n]),
      1 => (nested_spec("comment".into(), o.nested_depth.max(1), o), nested_spec("meta".into(), 1, o)).prop_map(|(a, b)| vec![a, b]),
    ]
    .boxed()
  } else {
    Just(Vec::new()).boxed()
  };
  let idf: BoxedStrategy<String> = if o.custom_id { prop_oneof![4 => Just("_id".to_string()), 1 => Just("pk".to_string())].boxed() } else { Just("_id".to_string()).boxed() };
  (text, kw, num, nested, idf)
    .prop_map(|(text, keyword, numeric, nested, doc_id_field)| {
      let mut used: Vec<String> = text.iter().map(|t| t.analyzer.clone()).collect();
      fn walk(n: &NestedSpec, used: &mut Vec<String>) {
        for p in n.props.iter() {
          match p {
            PropSpec::Text(t) => used.push(t.analyzer.clone()),
            PropSpec::Object(o) => walk(o, used),
            _ => {}
          }
        }
      }
      for n in nested.iter() {
        walk(n, &mut used);
      }
      let analyzers: Vec<Value> = analyzer_menu().into_iter().filter(|(n, _)| used.contains(n)).map(|(_, v)| v).collect();
      SchemaSpec { doc_id_field, analyzers, text, keyword, numeric, nested }
    })
    .boxed()
}
