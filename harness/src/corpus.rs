//! A corpus as a history of commits (adds/upserts and deletes), shared by the search-side properties.
use std::collections::BTreeMap;

use proptest::collection::vec;
use proptest::prelude::*;
use serde::{Deserialize, Serialize};
use serde_json::{Map, Value};

use crate::gen::{self, DocOpts, SchemaSpec};
use crate::sut;

#[derive(Clone, Debug, Serialize, Deserialize)]
pub struct Batch {
  pub adds: Vec<(String, Map<String, Value>)>,
  pub deletes: Vec<String>,
}

#[derive(Clone, Debug, Serialize, Deserialize)]
pub struct CorpusPlan {
  pub batches: Vec<Batch>,
}

#[derive(Clone, Copy, Debug)]
pub struct CorpusOpts {
  pub ids: usize,
  pub max_batches: usize,
  pub max_adds: usize,
  pub deletes: bool,
  pub doc: DocOpts,
}

pub fn plan(schema: &SchemaSpec, o: CorpusOpts) -> BoxedStrategy<CorpusPlan> {
  let add = (gen::doc_id(o.ids), gen::doc_body(schema, o.doc));
  let dels: BoxedStrategy<Vec<String>> = if o.deletes { vec(gen::doc_id(o.ids), 0..3).boxed() } else { Just(Vec::new()).boxed() };
  let batch = (vec(add, 1..=o.max_adds.max(1)), dels).prop_map(|(adds, deletes)| Batch { adds, deletes });
  vec(batch, 1..=o.max_batches.max(1)).prop_map(|batches| CorpusPlan { batches }).boxed()
}

pub struct Built {
  /// live documents (id -> full document JSON) after the last commit
  pub live: BTreeMap<String, Value>,
  pub segments: usize,
  pub had_delete: bool,
  pub had_upsert: bool,
  /// document versions that were committed and later deleted or overwritten
  pub ghosts: Vec<(String, Value)>,
}

/// Executes the plan (one commit per batch: deletes of the batch are queued before its adds) and
/// returns the model's view of the live documents.
pub fn build(idx: &searchlite_core::api::Index, schema: &SchemaSpec, plan: &CorpusPlan) -> anyhow::Result<Built> {
  let mut live: BTreeMap<String, Value> = BTreeMap::new();
  let mut had_delete = false;
  let mut had_upsert = false;
  let mut ghosts: Vec<(String, Value)> = Vec::new();
  let mut w = idx.writer()?;
  for b in plan.batches.iter() {
    if !b.deletes.is_empty() {
      w.delete_documents(&b.deletes)?;
      for d in b.deletes.iter() {
        if let Some(old) = live.remove(d) {
          had_delete = true;
          ghosts.push((d.clone(), old));
        }
      }
    }
    for (id, body) in b.adds.iter() {
      let doc = gen::with_id(schema, id, body.clone());
      w.add_document(&sut::document(&doc))?;
      if let Some(old) = live.insert(id.clone(), doc) {
        had_upsert = true;
        ghosts.push((id.clone(), old));
      }
    }
    w.commit()?;
  }
  drop(w);
  let segments = idx.manifest().segments.len();
  Ok(Built { live, segments, had_delete, had_upsert, ghosts })
}
