//! C05 — concurrent writer handles are serializable; C06 — readers see one consistent snapshot
//! during commits and compaction. Real threads on one index; the interleaving is a generated,
//! shrinkable plan executed by the baton scheduler through the hook points in searchlite-core.
use std::sync::{Arc, Mutex};

use proptest::collection::vec;
use proptest::prelude::*;
use serde::{Deserialize, Serialize};
use serde_json::{Map, Value};

use searchlite_core::api::{Index, IndexWriter};

use crate::crash::{model_view, View};
use crate::engine::{fingerprint, Ctx, Outcome, Plan, Property, Tier};
use crate::gen::{self, DocOpts, SchemaSpec, TextOpts};
use crate::model::{apply_ops, Contents, QOp};
use crate::sched::{Baton, Handle, SchedulePlan};
use crate::sut::{self, Scratch, StorageKind};

fn schema() -> SchemaSpec {
  SchemaSpec::simple()
}

#[derive(Clone, Debug, Serialize, Deserialize)]
pub enum Op {
  Add(String, Map<String, Value>),
  Delete(Vec<String>),
  Commit,
  Rollback,
  Compact,
  /// open a reader (replacing the thread's current one)
  OpenReader,
  /// search with the thread's current reader
  Search,
}

impl Op {
  fn label(&self) -> &'static str {
    match self {
      Op::Add(..) => "add",
      Op::Delete(..) => "delete",
      Op::Commit => "commit",
      Op::Rollback => "rollback",
      Op::Compact => "compact",
      Op::OpenReader => "open-reader",
      Op::Search => "search",
    }
  }
}

#[derive(Clone, Debug, Serialize, Deserialize)]
pub struct Case {
  pub storage: StorageKind,
  /// documents committed before the threads start
  pub seed_docs: Vec<(String, Map<String, Value>)>,
  /// number of commits the seed documents are spread over (>= 2 makes compaction real)
  pub seed_commits: usize,
  pub programs: Vec<Vec<Op>>,
  pub plan: SchedulePlan,
}

#[derive(Clone, Debug, PartialEq)]
enum Obs {
  /// add_document's return value
  Added(u32),
  Done,
  Failed(String),
  /// contents a search returned
  Saw(View),
}

struct RunResult {
  /// per thread, per op
  obs: Vec<Vec<Obs>>,
  log: Vec<(usize, String)>,
  switched_at: Vec<(usize, String)>,
  stuck: bool,
  final_view: Result<View, String>,
  reopened_view: Result<View, String>,
  seed: Contents,
}

fn view_of(idx: &Index) -> Result<View, String> {
  crate::crash::reader_view(idx, 100).map_err(|e| format!("{e:#}"))
}

fn execute(case: &Case) -> Result<RunResult, String> {
  let scratch = Scratch::new("c05");
  let root = scratch.sub("idx");
  let storage = sut::make_storage(&root, case.storage);
  let opts = sut::default_options(&root, case.storage);
  let idx = sut::create_index(&root, &schema(), opts.clone(), storage.clone()).map_err(|e| format!("create: {e:#}"))?;
  let mut seed = Contents::new();
  {
    let mut w = idx.writer().map_err(|e| format!("{e:#}"))?;
    let per = (case.seed_docs.len() / case.seed_commits.max(1)).max(1);
    for (i, (id, body)) in case.seed_docs.iter().enumerate() {
      let d = gen::with_id(&schema(), id, body.clone());
      w.add_document(&sut::document(&d)).map_err(|e| format!("{e:#}"))?;
      seed.insert(id.clone(), d);
      if (i + 1) % per == 0 {
        w.commit().map_err(|e| format!("{e:#}"))?;
      }
    }
    w.commit().map_err(|e| format!("{e:#}"))?;
  }
  let idx = Arc::new(idx);
  let n = case.programs.len();
  let baton = Baton::new(n, case.plan.clone());
  let obs: Arc<Mutex<Vec<Vec<Obs>>>> = Arc::new(Mutex::new(vec![Vec::new(); n]));
  let mut handles = Vec::new();
  for (t, prog) in case.programs.iter().cloned().enumerate() {
    let idx = idx.clone();
    let baton = baton.clone();
    let obs = obs.clone();
    handles.push(std::thread::spawn(move || {
      let _g = searchlite_core::verif::install_sched(Arc::new(Handle { baton: baton.clone(), me: t }));
      baton.enter(t);
      let mut writer: Option<IndexWriter> = None;
      let mut reader: Option<searchlite_core::api::IndexReader> = None;
      for (i, op) in prog.iter().enumerate() {
        baton.log(t, format!("begin {i} {}", op.label()));
        let needs_writer = matches!(op, Op::Add(..) | Op::Delete(..) | Op::Commit | Op::Rollback);
        let mut o = Obs::Done;
        if needs_writer && writer.is_none() {
          match idx.writer() {
            Ok(w) => writer = Some(w),
            Err(e) => o = Obs::Failed(format!("writer(): {e:#}")),
          }
        }
        if o == Obs::Done {
          o = match op {
            Op::Add(id, body) => {
              let d = gen::with_id(&schema(), id, body.clone());
              match writer.as_mut().unwrap().add_document(&sut::document(&d)) {
                Ok(c) => Obs::Added(c),
                Err(e) => Obs::Failed(format!("{e:#}")),
              }
            }
            Op::Delete(ids) => writer.as_mut().unwrap().delete_documents(ids).map(|_| Obs::Done).unwrap_or_else(|e| Obs::Failed(format!("{e:#}"))),
            Op::Commit => writer.as_mut().unwrap().commit().map(|_| Obs::Done).unwrap_or_else(|e| Obs::Failed(format!("{e:#}"))),
            Op::Rollback => writer.as_mut().unwrap().rollback().map(|_| Obs::Done).unwrap_or_else(|e| Obs::Failed(format!("{e:#}"))),
            Op::Compact => idx.compact().map(|_| Obs::Done).unwrap_or_else(|e| Obs::Failed(format!("{e:#}"))),
            Op::OpenReader => match idx.reader() {
              Ok(r) => {
                reader = Some(r);
                Obs::Done
              }
              Err(e) => Obs::Failed(format!("{e:#}")),
            },
            Op::Search => match reader.as_ref() {
              None => Obs::Done,
              Some(r) => match sut::contents(r, 100) {
                Ok((docs, _)) => {
                  let mut v = View::new();
                  let mut dup = None;
                  for (id, f) in docs {
                    if v.insert(id.clone(), crate::model::normal(&f)).is_some() {
                      dup = Some(id);
                    }
                  }
                  match dup {
                    Some(id) => Obs::Failed(format!("id {id} returned twice")),
                    None => Obs::Saw(v),
                  }
                }
                Err(e) => Obs::Failed(format!("{e:#}")),
              },
            },
          };
        }
        baton.log(t, format!("end {i} {}", op.label()));
        obs.lock().unwrap()[t].push(o);
      }
      drop(reader);
      drop(writer);
      baton.finish(t);
    }));
  }
  baton.start();
  for h in handles {
    let _ = h.join();
  }
  let (log, switched_at, stuck) = baton.take_log();
  let final_view = view_of(&idx);
  let reopened_view = Index::open_with_storage(opts, storage).map_err(|e| format!("{e:#}")).and_then(|i| view_of(&i));
  let obs = obs.lock().unwrap().clone();
  Ok(RunResult { obs, log, switched_at, stuck, final_view, reopened_view, seed })
}

// ---------------------------------------------------------------------------------
// serial executions of the writer programs (the reference for C05)

#[derive(Clone)]
struct Serial {
  committed: Contents,
  log: Vec<QOp>,
  queues: Vec<Option<Vec<QOp>>>,
  obs: Vec<Vec<Obs>>,
}

fn step(s: &mut Serial, t: usize, op: &Op) {
  let needs_writer = matches!(op, Op::Add(..) | Op::Delete(..) | Op::Commit | Op::Rollback);
  if needs_writer && s.queues[t].is_none() {
    s.queues[t] = Some(s.log.clone());
  }
  let o = match op {
    Op::Add(id, body) => {
      let qop = QOp::Add(id.clone(), gen::with_id(&schema(), id, body.clone()));
      s.log.push(qop.clone());
      let q = s.queues[t].as_mut().unwrap();
      q.push(qop);
      Obs::Added(q.iter().filter(|o| matches!(o, QOp::Add(..))).count() as u32 - 1)
    }
    Op::Delete(ids) => {
      for id in ids {
        s.log.push(QOp::Del(id.clone()));
        s.queues[t].as_mut().unwrap().push(QOp::Del(id.clone()));
      }
      Obs::Done
    }
    Op::Commit => {
      let q = std::mem::take(s.queues[t].as_mut().unwrap());
      if !q.is_empty() {
        apply_ops(&mut s.committed, &q);
        s.log.clear();
      }
      Obs::Done
    }
    Op::Rollback => {
      s.queues[t].as_mut().unwrap().clear();
      s.log.clear();
      Obs::Done
    }
    _ => Obs::Done,
  };
  s.obs[t].push(o);
}

/// Is there an order of the calls (respecting each thread's program order) whose serial execution
/// gives these observations and these final contents?
fn explained_by_some_serial_order(case: &Case, seed: &Contents, obs: &[Vec<Obs>], final_view: &View) -> bool {
  let n = case.programs.len();
  fn rec(case: &Case, s: Serial, pos: &mut Vec<usize>, obs: &[Vec<Obs>], final_view: &View, budget: &mut u64) -> bool {
    if *budget == 0 {
      return true; // search space exhausted: do not judge
    }
    *budget -= 1;
    let n = case.programs.len();
    if (0..n).all(|t| pos[t] == case.programs[t].len()) {
      return model_view(&s.committed) == *final_view;
    }
    for t in 0..n {
      if pos[t] < case.programs[t].len() {
        let op = &case.programs[t][pos[t]];
        // opening the thread's writer handle is a serializable call of its own (it reads the log):
        // it happens some time before the thread's first writer call, not necessarily right before it
        if matches!(op, Op::Add(..) | Op::Delete(..) | Op::Commit | Op::Rollback) && s.queues[t].is_none() {
          let mut s2 = s.clone();
          s2.queues[t] = Some(s2.log.clone());
          if rec(case, s2, pos, obs, final_view, budget) {
            return true;
          }
          continue;
        }
        let mut s2 = s.clone();
        step(&mut s2, t, op);
        // prune: the observation of this call must match (searches and failures are not modelled here)
        let want = &obs[t][pos[t]];
        let got = s2.obs[t].last().unwrap();
        let comparable = matches!(want, Obs::Added(_) | Obs::Done);
        if comparable && got != want {
          continue;
        }
        pos[t] += 1;
        let ok = rec(case, s2, pos, obs, final_view, budget);
        pos[t] -= 1;
        if ok {
          return true;
        }
      }
    }
    false
  }
  let s = Serial { committed: seed.clone(), log: Vec::new(), queues: vec![None; n], obs: vec![Vec::new(); n] };
  let mut budget = 400_000u64;
  rec(case, s, &mut vec![0; n], obs, final_view, &mut budget)
}

fn program_strategy(ops: BoxedStrategy<Op>, max: usize) -> BoxedStrategy<Vec<Op>> {
  vec(ops, 1..=max).boxed()
}

fn doc_opts() -> DocOpts {
  DocOpts { text: TextOpts { max_words: 3, odd: false, vocab: 8 }, max_multi: 2, absent: 3, max_nested_objs: 0, null_items: false, extremes: false }
}

fn plan_strategy(threads: usize) -> BoxedStrategy<SchedulePlan> {
  (vec((0u16..60, 0u8..threads as u8), 0..8), vec(0u8..threads as u8, 0..4), prop_oneof![3 => Just(0u8), 1 => 1u8..4]).prop_map(|(switches, prio, every)| SchedulePlan { switches, prio, every }).boxed()
}

fn seed_strategy() -> BoxedStrategy<Vec<(String, Map<String, Value>)>> {
  vec((gen::doc_id(6), gen::doc_body(&schema(), doc_opts())), 0..6).boxed()
}

fn describe(case: &Case) -> String {
  let progs: Vec<Vec<&'static str>> = case.programs.iter().map(|p| p.iter().map(|o| o.label()).collect()).collect();
  format!("programs {progs:?}, plan {:?}", case.plan)
}

pub struct C05;

impl Property for C05 {
  type Case = Case;
  const ID: &'static str = "C05";
  fn rule() -> String {
    "cases = 2-3 real threads, each with its own writer handle and a program of 1-4 calls (add, delete, commit, rollback; optionally a compaction thread) on one index (in-memory or filesystem) holding 0-5 seed documents, and a schedule plan (forced baton switches at numbered hook points, a preference order, optional dense switching every n-th point). The hook points sit in front of every writer-lock acquisition and inside add / commit / compaction, so the plan decides the interleaving for real. Oracle: no call fails, the final contents (live reader and fresh open) and every add_document return value equal those of SOME serial execution of the same calls (all merges of the programs that respect program order are simulated on the multi-handle store model), and the index reopens. Non-trivial = a forced switch took effect at a point inside a commit or compaction while another thread had calls left; distinct = hash of (programs, plan)".into()
  }
  fn assumptions() -> Vec<String> {
    vec![
      "only interleavings at the hook points are explored (lock acquisitions, after WAL append in add, five points inside commit, three inside compaction, reader open)".into(),
      "a case in which the scheduler cannot make progress for 20 s is reported as inconclusive (exit 2), never as a violation".into(),
    ]
  }
  fn plan(tier: Tier) -> Plan {
    Plan { workers: 8, cases_per_worker: tier.pick(600, 15000) }
  }
  fn shrink_iters() -> u32 {
    1500
  }
  fn strategy(_tier: Tier) -> BoxedStrategy<Case> {
    let s = schema();
    let wop = prop_oneof![
      8 => (gen::doc_id(5), gen::doc_body(&s, doc_opts())).prop_map(|(i, b)| Op::Add(i, b)),
      3 => vec(gen::doc_id(6), 1..3).prop_map(Op::Delete),
      5 => Just(Op::Commit),
      1 => Just(Op::Rollback),
    ]
    .boxed();
    // filesystem storage only: what a handle inherits from an in-memory log shared by several live
    // handles is not defined (DESIGN section 8, same restriction as C04)
    (2usize..4, any::<bool>(), Just(StorageKind::Fs))
      .prop_flat_map(move |(writers, compactor, storage)| {
        let mut progs: Vec<BoxedStrategy<Vec<Op>>> = (0..writers).map(|_| program_strategy(wop.clone(), if writers == 2 { 4 } else { 3 })).collect();
        if compactor && writers == 2 {
          progs.push(vec(Just(Op::Compact), 1..3).boxed());
        }
        let threads = progs.len();
        (Just(storage), seed_strategy(), 1usize..3, progs, plan_strategy(threads))
      })
      .prop_map(|(storage, seed_docs, seed_commits, programs, plan)| Case { storage, seed_docs, seed_commits, programs, plan })
      .boxed()
  }
  fn run(case: &Case, _ctx: &Ctx) -> Outcome {
    let mut out = Outcome::new();
    out.evals = 1;
    let r = match execute(case) {
      Ok(r) => r,
      Err(e) => {
        out.fail("setup-failed", e);
        return out;
      }
    };
    if r.stuck {
      out.inconclusive = Some(format!("scheduler made no progress for 20 s; {}", describe(case)));
      return out;
    }
    for (t, os) in r.obs.iter().enumerate() {
      for (i, o) in os.iter().enumerate() {
        if let Obs::Failed(msg) = o {
          out.fail("call-fails-under-concurrency", format!("thread {t} call {i} ({}) failed: {msg}; {}", case.programs[t][i].label(), describe(case)));
          return out;
        }
      }
    }
    let final_view = match (&r.final_view, &r.reopened_view) {
      (Ok(a), Ok(b)) => {
        if a != b {
          out.fail("live-index-and-reopened-index-disagree", format!("a reader of the live index sees {:?}, a fresh open sees {:?}; {}", a.keys().collect::<Vec<_>>(), b.keys().collect::<Vec<_>>(), describe(case)));
          return out;
        }
        a.clone()
      }
      (Err(e), _) => {
        out.fail("index-unreadable-after-concurrent-calls", format!("{e}; {}", describe(case)));
        return out;
      }
      (_, Err(e)) => {
        out.fail("index-does-not-reopen-after-concurrent-calls", format!("{e}; {}", describe(case)));
        return out;
      }
    };
    if !explained_by_some_serial_order(case, &r.seed, &r.obs, &final_view) {
      out.fail(
        "outcome-matches-no-serial-execution",
        format!("final ids {:?} and add results {:?} are not produced by any serial order of the calls; {}; event log {:?}", final_view.keys().collect::<Vec<_>>(), r.obs.iter().map(|os| os.iter().filter_map(|o| if let Obs::Added(c) = o { Some(*c) } else { None }).collect::<Vec<_>>()).collect::<Vec<_>>(), describe(case), r.log.iter().map(|(t, s)| format!("{t}:{s}")).collect::<Vec<_>>()),
      );
      return out;
    }
    let inside = r.switched_at.iter().any(|(_, l)| l.starts_with("commit.") || l.starts_with("compact.") || l == "add.after_wal");
    if !r.switched_at.is_empty() {
      out.class("switched");
    }
    if inside {
      out.class("switched-inside-critical-section");
      out.nontrivial(fingerprint(&format!("{:?}{:?}", case.programs, case.plan)));
    }
    out
  }
}

pub struct C06;

impl Property for C06 {
  type Case = Case;
  const ID: &'static str = "C06";
  fn rule() -> String {
    "cases = one writer thread (adds / deletes / commits), optionally a compaction thread, and 1-2 reader threads (open a reader, search 1-3 times, possibly open again) as real threads on one index with 2-5 seed documents in 2 segments, and a schedule plan executed through the hook points (reader open: after the manifest copy and before every segment open; commit: 5 points; compaction: after its own reader, after publishing, after deleting old segments). Oracle: Index::reader() and every search succeed; every search of one reader returns exactly one committed state S_i, the same for all its searches, with i between the number of commits finished before the open began and the number begun before it ended (states in the writer's commit order, from the store model). Non-trivial = a baton switch took effect inside a reader open, or inside commit / compaction while a reader was between open and its last search; distinct = hash of (programs, plan)".into()
  }
  fn assumptions() -> Vec<String> {
    C05::assumptions()
  }
  fn plan(tier: Tier) -> Plan {
    Plan { workers: 8, cases_per_worker: tier.pick(600, 15000) }
  }
  fn shrink_iters() -> u32 {
    1500
  }
  fn strategy(_tier: Tier) -> BoxedStrategy<Case> {
    let s = schema();
    let wop = prop_oneof![
      6 => (gen::doc_id(5), gen::doc_body(&s, doc_opts())).prop_map(|(i, b)| Op::Add(i, b)),
      2 => vec(gen::doc_id(6), 1..3).prop_map(Op::Delete),
      5 => Just(Op::Commit),
    ]
    .boxed();
    let rop = prop_oneof![2 => Just(Op::OpenReader), 3 => Just(Op::Search)].boxed();
    (1usize..3, any::<bool>(), prop_oneof![1 => Just(StorageKind::Mem), 2 => Just(StorageKind::Fs)])
      .prop_flat_map(move |(readers, compactor, storage)| {
        let mut progs: Vec<BoxedStrategy<Vec<Op>>> = vec![program_strategy(wop.clone(), 6)];
        if compactor {
          progs.push(vec(Just(Op::Compact), 1..3).boxed());
        }
        for _ in 0..readers {
          let rest = vec(rop.clone(), 1..4);
          progs.push(rest.prop_map(|mut r| {
            r.insert(0, Op::OpenReader);
            r.push(Op::Search);
            r
          }).boxed());
        }
        let threads = progs.len();
        (Just(storage), vec((gen::doc_id(6), gen::doc_body(&schema(), doc_opts())), 2..6), Just(2usize), progs, plan_strategy(threads))
      })
      .prop_map(|(storage, seed_docs, seed_commits, programs, plan)| Case { storage, seed_docs, seed_commits, programs, plan })
      .boxed()
  }
  fn run(case: &Case, _ctx: &Ctx) -> Outcome {
    let mut out = Outcome::new();
    out.evals = 1;
    let r = match execute(case) {
      Ok(r) => r,
      Err(e) => {
        out.fail("setup-failed", e);
        return out;
      }
    };
    if r.stuck {
      out.inconclusive = Some(format!("scheduler made no progress for 20 s; {}", describe(case)));
      return out;
    }
    // committed states in the writer's commit order (thread 0 is the only writer)
    let mut states: Vec<Contents> = vec![r.seed.clone()];
    let mut commit_call: Vec<usize> = Vec::new(); // op index of the commit producing states[k+1]
    {
      let mut cur = r.seed.clone();
      let mut q: Vec<QOp> = Vec::new();
      for (i, op) in case.programs[0].iter().enumerate() {
        match op {
          Op::Add(id, body) => q.push(QOp::Add(id.clone(), gen::with_id(&schema(), id, body.clone()))),
          Op::Delete(ids) => q.extend(ids.iter().map(|i| QOp::Del(i.clone()))),
          Op::Commit => {
            if !q.is_empty() {
              apply_ops(&mut cur, &q);
              q.clear();
              states.push(cur.clone());
              commit_call.push(i);
            }
          }
          _ => {}
        }
      }
    }
    let views: Vec<View> = states.iter().map(model_view).collect();
    // positions of call begin/end markers in the global log
    let pos_of = |t: usize, text: &str| r.log.iter().position(|(tt, s)| *tt == t && s == text);
    let commit_begin: Vec<Option<usize>> = commit_call.iter().map(|i| pos_of(0, &format!("begin {i} commit"))).collect();
    let commit_end: Vec<Option<usize>> = commit_call.iter().map(|i| pos_of(0, &format!("end {i} commit"))).collect();
    for (t, prog) in case.programs.iter().enumerate() {
      let mut window: Option<(usize, usize)> = None; // allowed state indices of the current reader
      let mut pinned: Option<usize> = None;
      for (i, op) in prog.iter().enumerate() {
        let o = &r.obs[t][i];
        if let Obs::Failed(msg) = o {
          let sig = match op {
            Op::OpenReader => "reader-open-fails-during-concurrent-change",
            Op::Search => "search-fails-during-concurrent-change",
            _ => "call-fails-under-concurrency",
          };
          out.fail(sig, format!("thread {t} call {i} ({}) failed: {msg}; {}; event log {:?}", op.label(), describe(case), r.log.iter().map(|(t, s)| format!("{t}:{s}")).collect::<Vec<_>>()));
          return out;
        }
        match op {
          Op::OpenReader => {
            let (b, e) = (pos_of(t, &format!("begin {i} open-reader")).unwrap_or(0), pos_of(t, &format!("end {i} open-reader")).unwrap_or(usize::MAX));
            let lo = commit_end.iter().filter(|p| p.map(|p| p < b).unwrap_or(false)).count();
            let hi = commit_begin.iter().filter(|p| p.map(|p| p < e).unwrap_or(false)).count();
            window = Some((lo, hi));
            pinned = None;
          }
          Op::Search => {
            if let (Obs::Saw(v), Some((lo, hi))) = (o, window) {
              out.evals += 1;
              let found: Vec<usize> = (lo..=hi.min(views.len() - 1)).filter(|k| views[*k] == *v).collect();
              let ok = match pinned {
                Some(p) => views[p] == *v,
                None => !found.is_empty(),
              };
              if !ok {
                let anywhere: Vec<usize> = (0..views.len()).filter(|k| views[*k] == *v).collect();
                let sig = if pinned.is_some() { "reader-results-change-between-searches" } else if anywhere.is_empty() { "reader-sees-a-state-that-was-never-committed" } else { "reader-sees-a-state-outside-its-open-window" };
                out.fail(sig, format!("thread {t} search {i} returned ids {:?}; committed states (ids) {:?}; the reader may show state {lo}..={hi}{}; {}; event log {:?}", v.keys().collect::<Vec<_>>(), views.iter().map(|s| s.keys().cloned().collect::<Vec<_>>()).collect::<Vec<_>>(), pinned.map(|p| format!(" and showed state {p} before")).unwrap_or_default(), describe(case), r.log.iter().map(|(t, s)| format!("{t}:{s}")).collect::<Vec<_>>()));
                return out;
              }
              if pinned.is_none() {
                pinned = found.first().copied();
              }
            }
          }
          _ => {}
        }
      }
    }
    if r.final_view.is_err() || r.reopened_view.is_err() {
      out.fail("index-unreadable-after-concurrent-calls", format!("{:?} / {:?}; {}", r.final_view.as_ref().err(), r.reopened_view.as_ref().err(), describe(case)));
      return out;
    }
    let inside_reader = r.switched_at.iter().any(|(_, l)| l.starts_with("reader."));
    let inside_writer = r.switched_at.iter().any(|(_, l)| l.starts_with("commit.") || l.starts_with("compact."));
    if inside_reader {
      out.class("switched-inside-reader-open");
    }
    if inside_writer {
      out.class("switched-inside-commit-or-compaction");
    }
    if inside_reader || inside_writer {
      out.nontrivial(fingerprint(&format!("{:?}{:?}", case.programs, case.plan)));
    }
    out
  }
}
