//! C07 — query matching follows the documented query semantics (reference matcher, id sets).
use std::collections::BTreeSet;

use proptest::collection::vec;
use proptest::prelude::*;
use serde::{Deserialize, Serialize};
use serde_json::{json, Value};

use crate::corpus::{self, CorpusOpts, CorpusPlan};
use crate::engine::{fingerprint_json, Ctx, Outcome, Plan, Property, Tier};
use crate::gen::{self, DocOpts, SchemaOpts, SchemaSpec, SEPS};
use crate::qgen::{self, QGen};
use crate::qmodel::{Corpus, Fuzzy, QueryModel, Regions};
use crate::sut::{self, Scratch, StorageKind};

#[derive(Clone, Debug, Serialize, Deserialize)]
pub struct Q {
  pub query: Value,
  pub fuzzy: Option<Value>,
  /// request-level default fields
  pub fields: Option<Vec<String>>,
}

#[derive(Clone, Debug, Serialize, Deserialize)]
pub struct Case {
  pub schema: SchemaSpec,
  pub plan: CorpusPlan,
  pub queries: Vec<Q>,
}

pub const SIG_CANDIDATES: &str = "optional-scored-clause-limits-candidates";
pub const SIG_PATTERN: &str = "pattern-analysis-drops-metacharacters";

pub struct C07;

pub fn schema_strategy() -> BoxedStrategy<SchemaSpec> {
  let so = SchemaOpts { allow_nested: false, custom_id: false, force_fast: true, max_text: 2, max_kw: 2, max_num: 2, ..SchemaOpts::default() };
  gen::schema(so)
    .prop_map(|mut s| {
      // make sure there is always an indexed text field to query
      s.text[0].indexed = true;
      s
    })
    .boxed()
}

fn has_type(q: &Value, tys: &[&str]) -> bool {
  match q {
    Value::Object(m) => m.get("type").and_then(|t| t.as_str()).map(|t| tys.contains(&t)).unwrap_or(false) || m.values().any(|v| has_type(v, tys)),
    Value::Array(a) => a.iter().any(|v| has_type(v, tys)),
    _ => false,
  }
}

fn depth(q: &Value) -> usize {
  match q {
    Value::Object(m) => {
      let d = m.values().map(depth).max().unwrap_or(0);
      if m.contains_key("type") {
        d + 1
      } else {
        d
      }
    }
    Value::Array(a) => a.iter().map(depth).max().unwrap_or(0),
    _ => 0,
  }
}

impl Property for C07 {
  type Case = Case;
  const ID: &'static str = "C07";
  fn rule() -> String {
    "cases = random schema (text fields with default/whitespace/unicode analyzers, stopwords, stemming, synonyms; keyword and numeric fields), a corpus committed in 1-4 segments with upserts and deletions, and 8 query trees (depth<=3 over every node type, with optional request-level fuzzy options and default fields) plus, per corpus, the closed-form family `term(field, w)` for every word w of every indexed text value. The hit-id set (execution=bm25, limit > corpus) must contain every document the reference matcher says must match and nothing it says cannot. Non-trivial = (>=2 segments or a deletion) and query depth>=2 with a required and an optional clause or an expansion/phrase node, expected set neither empty nor everything; distinct = hash of (query, live documents)".into()
  }
  fn assumptions() -> Vec<String> {
    vec![
      "tokens come from the crate's own analyzers (Schema::build_analyzers): the property speaks of the analyzed field contents".into(),
      "phrases that only match across the boundary of two values of a multi-valued field are don't-care; multi-token term values, fuzzy under must_not, function_score.min_score and max_boost are not generated (undocumented)".into(),
      "expansion queries stay below their caps by construction (vocabulary of <= 45 distinct words per field)".into(),
    ]
  }
  fn plan(tier: Tier) -> Plan {
    Plan { workers: 16, cases_per_worker: tier.pick(600, 12000) }
  }
  fn strategy(_tier: Tier) -> BoxedStrategy<Case> {
    schema_strategy()
      .prop_flat_map(|schema| {
        let d = DocOpts { text: gen::TextOpts { max_words: 6, odd: true, vocab: 16 }, max_multi: 2, absent: 1, max_nested_objs: 0, null_items: false, extremes: false };
        let plan = corpus::plan(&schema, CorpusOpts { ids: 12, max_batches: 4, max_adds: 6, deletes: true, doc: d });
        let g = QGen::new(&schema, 16, true);
        let text_fields = g.text.clone();
        let n = text_fields.len().max(1);
        let q = (g.tree(3), qgen::fuzzy(), proptest::option::weighted(0.25, proptest::sample::subsequence(text_fields, 1..=n))).prop_map(|(query, fuzzy, fields)| Q { query, fuzzy, fields });
        (Just(schema), plan, vec(q, 8))
      })
      .prop_map(|(schema, plan, queries)| Case { schema, plan, queries })
      .boxed()
  }
  fn run(case: &Case, ctx: &Ctx) -> Outcome {
    let mut out = Outcome::new();
    let scratch = Scratch::new("c07");
    let root = scratch.sub("idx");
    let storage = sut::make_storage(&root, StorageKind::Mem);
    let opts = sut::default_options(&root, StorageKind::Mem);
    let idx = match sut::create_index(&root, &case.schema, opts, storage) {
      Ok(i) => i,
      Err(e) => {
        out.fail("create-failed", format!("{e:#}"));
        return out;
      }
    };
    let built = match corpus::build(&idx, &case.schema, &case.plan) {
      Ok(b) => b,
      Err(e) => {
        out.fail("corpus-build-failed", format!("{e:#}"));
        return out;
      }
    };
    let reader = match idx.reader() {
      Ok(r) => r,
      Err(e) => {
        out.fail("reader-open-failed", format!("{e:#}"));
        return out;
      }
    };
    let docs: Vec<(String, Value)> = built.live.iter().map(|(k, v)| (k.clone(), v.clone())).collect();
    let corpus = Corpus::with_ghosts(&case.schema, &docs, &built.ghosts);
    let all_text: Vec<String> = case.schema.text.iter().map(|t| t.name.clone()).collect();
    let limit = docs.len() + 10;
    let multi_seg = built.segments >= 2 || built.had_delete;
    if built.segments >= 2 {
      out.class("multi-segment");
    }
    if built.had_delete {
      out.class("deletion");
    }
    let known_cand = ctx.is_known(Self::ID, SIG_CANDIDATES);
    let known_pat = ctx.is_known(Self::ID, SIG_PATTERN);

    let check = |q: &Q, out: &mut Outcome, closed_form: Option<&str>| -> bool {
      out.evals += 1;
      let mut req = json!({"query": q.query, "limit": limit, "execution": "bm25"});
      if let Some(f) = &q.fuzzy {
        req["fuzzy"] = f.clone();
      }
      if let Some(f) = &q.fields {
        req["fields"] = json!(f);
      }
      let got: BTreeSet<String> = match sut::search(&reader, req.clone()) {
        Ok(r) => r.hits.iter().map(|h| h.doc_id.clone()).collect(),
        Err(e) => {
          out.fail("search-error", format!("valid query rejected or failed: {e:#}; request {req}"));
          return false;
        }
      };
      let default_fields = q.fields.clone().unwrap_or_else(|| all_text.clone());
      let fuzzy = q.fuzzy.as_ref().and_then(Fuzzy::from_json);
      let mut model = QueryModel::new(&corpus, default_fields, fuzzy);
      let eval_all = |m: &QueryModel| -> (BTreeSet<String>, BTreeSet<String>) {
        let mut lo = BTreeSet::new();
        let mut hi = BTreeSet::new();
        let mut keys = Vec::new();
        m.scored_keys(&q.query, true, &mut keys);
        for d in corpus.docs.iter() {
          let mut t = m.eval(&q.query, d, true);
          if m.regions.lenient_candidates && !keys.is_empty() && !m.doc_has_scored_key(d, &keys) {
            t.lo = false;
          }
          if t.lo {
            lo.insert(d.id.clone());
          }
          if t.hi {
            hi.insert(d.id.clone());
          }
        }
        (lo, hi)
      };
      let ok = |lo: &BTreeSet<String>, hi: &BTreeSet<String>| lo.is_subset(&got) && got.is_subset(hi);
      let (lo, hi) = eval_all(&model);
      let lossy = model.touched_lossy_pattern.get();
      if lossy {
        out.class("lossy-pattern-analysis");
      }
      if !ok(&lo, &hi) {
        let detail = |why: &str| {
          let missing: Vec<&String> = lo.difference(&got).collect();
          let extra: Vec<&String> = got.difference(&hi).collect();
          let sample = missing.first().or(extra.first()).and_then(|id| docs.iter().find(|(i, _)| i == *id)).map(|(_, d)| d.to_string()).unwrap_or_default();
          format!("{why}: request {req}: returned {:?}; must-match {:?}; may-match {:?}; missing {:?}; unexpected {:?}; e.g. {sample}", got, lo, hi, missing, extra)
        };
        // which listed root cause, if any, explains the difference?
        model.regions = Regions { lenient_pattern: false, lenient_candidates: true };
        let (lo2, hi2) = eval_all(&model);
        if ok(&lo2, &hi2) {
          out.fail(SIG_CANDIDATES, detail("documents that match only through a non-scored clause are not returned (candidates come from the postings of scored terms only)"));
          if known_cand {
            out.excluded_known += 1;
            return true;
          }
          return false;
        }
        model.regions = Regions { lenient_pattern: true, lenient_candidates: false };
        let (lo3, hi3) = eval_all(&model);
        if lossy && ok(&lo3, &hi3) {
          out.fail(SIG_PATTERN, detail("wildcard/regex pattern analysed to a single token loses its metacharacters"));
          if known_pat {
            out.excluded_known += 1;
            return true;
          }
          return false;
        }
        model.regions = Regions { lenient_pattern: true, lenient_candidates: true };
        let (lo4, hi4) = eval_all(&model);
        if lossy && ok(&lo4, &hi4) {
          out.fail(SIG_CANDIDATES, detail("(together with a lossy pattern) candidates come from scored terms only"));
          out.fail(SIG_PATTERN, detail("(together with candidate limitation) pattern loses metacharacters"));
          if known_cand && known_pat {
            out.excluded_known += 1;
            return true;
          }
          return false;
        }
        out.fail(if closed_form.is_some() { "indexed-word-does-not-find-document" } else { "match-set-mismatch" }, detail("hit set differs from the documented semantics"));
        return false;
      }
      // classification
      if closed_form.is_none() {
        let d = depth(&q.query);
        let has_bool_mix = q.query.get("type").and_then(|t| t.as_str()) == Some("bool")
          && q.query.get("should").and_then(|s| s.as_array()).map(|a| !a.is_empty()).unwrap_or(false)
          && (q.query.get("must").and_then(|s| s.as_array()).map(|a| !a.is_empty()).unwrap_or(false) || q.query.get("filter").and_then(|s| s.as_array()).map(|a| !a.is_empty()).unwrap_or(false));
        let special = has_type(&q.query, &["prefix", "wildcard", "regex", "phrase"]);
        if has_bool_mix {
          out.class("bool-must-and-should");
        }
        if special {
          out.class("expansion-or-phrase");
        }
        if q.fuzzy.is_some() {
          out.class("fuzzy");
        }
        if !lo.is_empty() && hi.len() < docs.len() {
          out.class("selective");
          if multi_seg && d >= 2 && (has_bool_mix || special) {
            out.nontrivial(fingerprint_json(&(&q.query, &q.fuzzy, &docs)));
          }
        }
      }
      true
    };

    for q in case.queries.iter() {
      if !check(q, &mut out, None) {
        return out;
      }
    }
    // closed form: every indexed word of a document finds that document. For the plain `default`
    // and whitespace analyzers the words are derived here, independently of the crate's analyzers.
    let mut seen = BTreeSet::new();
    'outer: for (id, d) in docs.iter() {
      for t in case.schema.text.iter().filter(|t| t.indexed) {
        for value in crate::model::strings_of(d.get(&t.name)) {
          let independent: Option<Vec<String>> = match t.analyzer.as_str() {
            "default" => {
              let mut words = Vec::new();
              let mut cur = String::new();
              for ch in value.chars() {
                if ch.is_alphanumeric() {
                  cur.push(ch);
                } else if !cur.is_empty() {
                  words.push(std::mem::take(&mut cur));
                }
              }
              if !cur.is_empty() {
                words.push(cur);
              }
              Some(words)
            }
            "ws" | "wslow" => Some(value.split_whitespace().map(|s| s.to_string()).collect()),
            _ => None,
          };
          let mut rest: Vec<String> = vec![value.clone()];
          for sep in SEPS.iter().map(|s| s.trim()).filter(|s| !s.is_empty()).chain([" ", "\n"].into_iter()) {
            rest = rest.into_iter().flat_map(|s| s.split(sep).map(|x| x.to_string()).collect::<Vec<_>>()).collect();
          }
          let words: Vec<String> = independent.clone().unwrap_or_else(|| rest.into_iter().map(|w| w.trim().to_string()).filter(|w| !w.is_empty()).collect());
          for w in words {
            if !seen.insert((id.clone(), t.name.clone(), w.clone())) {
              continue;
            }
            let q = Q { query: json!({"type": "term", "field": t.name, "value": w}), fuzzy: None, fields: None };
            if independent.is_some() {
              out.evals += 1;
              match sut::search(&reader, json!({"query": q.query, "limit": limit, "execution": "bm25"})) {
                Ok(r) => {
                  if !r.hits.iter().any(|h| h.doc_id == *id) {
                    out.fail("indexed-word-does-not-find-document", format!("document {d} contains the word {w:?} in field {} (analyzer {}), but term({}, {w:?}) returned {:?}", t.name, t.analyzer, t.name, sut::hit_ids(&r)));
                    break 'outer;
                  }
                }
                Err(e) => {
                  out.fail("search-error", format!("term query failed: {e:#}"));
                  break 'outer;
                }
              }
            }
            if !check(&q, &mut out, Some(id)) {
              break 'outer;
            }
          }
        }
      }
    }
    out
  }
}
