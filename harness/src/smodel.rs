//! Reference scorer: BM25 exactly as documented (README / bm25.rs formula) per segment, combined
//! through boosts, sums, dis_max + tie_breaker, constant_score, function_score, rank_feature and
//! script_score. Works on the raw documents of a `scoreworld` corpus (default analyzer only) and is
//! only defined for histories without deletions (segment statistics are then unambiguous).
use std::collections::{BTreeMap, BTreeSet};

use serde_json::Value;

use crate::fmodel;
use crate::gen::SchemaSpec;
use crate::qmodel::{parse_query_string, Corpus, QueryModel};

pub fn tokenize_default(s: &str) -> Vec<String> {
  let mut out = Vec::new();
  let mut cur = String::new();
  for ch in s.chars() {
    if ch.is_alphanumeric() {
      cur.push(ch.to_ascii_lowercase());
    } else if !cur.is_empty() {
      out.push(std::mem::take(&mut cur));
    }
  }
  if !cur.is_empty() {
    out.push(cur);
  }
  out
}

#[derive(Default, Clone)]
pub struct SegStats {
  pub docs: f32,
  pub df: BTreeMap<(String, String), f32>,
  pub total_len: BTreeMap<String, f64>,
}

pub struct DocToks {
  pub id: String,
  pub seg: usize,
  pub ord: usize,
  pub json: Value,
  pub toks: BTreeMap<String, Vec<String>>,
}

#[derive(Clone, Debug)]
pub enum Expr {
  Leaf(usize),
  Sum(Vec<Expr>),
  DisMax(Vec<Expr>, f32),
}

#[derive(Clone, Debug)]
pub enum Node {
  Empty,
  Expr(Expr),
  Sum(Vec<Node>),
  DisMax(Vec<Node>, f32),
  Constant { score: f32, query: Value },
  FunctionScore { query: Value, base: Box<Node>, functions: Vec<Value>, score_mode: String, boost_mode: String, max_boost: Option<f32>, min_score: Option<f32>, boost: f32 },
  RankFeature { field: String, modifier: String, missing: f32, boost: f32 },
  ScriptScore { query: Value, base: Box<Node>, script: String, params: BTreeMap<String, f64>, boost: f32 },
}

/// one scoring leaf: (field, term, weight) keys whose BM25 contributions are summed
pub type LeafKeys = Vec<(String, String, f32)>;

pub struct ScoreModel<'a> {
  pub schema: &'a SchemaSpec,
  pub corpus: &'a Corpus,
  pub docs: Vec<DocToks>,
  pub segs: Vec<SegStats>,
  pub k1: f32,
  pub b: f32,
  pub text_fields: Vec<String>,
  pub dict: BTreeMap<String, BTreeSet<String>>,
}

pub struct Built {
  pub leaves: Vec<LeafKeys>,
  pub expr: Option<Expr>,
  pub node: Node,
  /// a (field, term) key appears in more than one leaf (the engine merges such keys: unspecified)
  pub duplicate_keys: bool,
}

impl<'a> ScoreModel<'a> {
  pub fn new(schema: &'a SchemaSpec, corpus: &'a Corpus, live: &[(String, Value, usize, usize)], k1: f32, b: f32) -> Self {
    let text_fields: Vec<String> = schema.text.iter().map(|t| t.name.clone()).collect();
    let nseg = live.iter().map(|l| l.2 + 1).max().unwrap_or(0);
    let mut segs = vec![SegStats::default(); nseg];
    let mut docs = Vec::new();
    let mut dict: BTreeMap<String, BTreeSet<String>> = BTreeMap::new();
    for (id, json, seg, ord) in live.iter() {
      let mut toks = BTreeMap::new();
      for f in text_fields.iter() {
        let mut all = Vec::new();
        let present = json.get(f).is_some();
        for s in crate::model::strings_of(json.get(f)) {
          all.extend(tokenize_default(&s));
        }
        if present {
          *segs[*seg].total_len.entry(f.clone()).or_insert(0.0) += all.len() as f64;
        }
        let uniq: BTreeSet<&String> = all.iter().collect();
        for t in uniq {
          *segs[*seg].df.entry((f.clone(), t.clone())).or_insert(0.0) += 1.0;
          dict.entry(f.clone()).or_default().insert(t.clone());
        }
        toks.insert(f.clone(), all);
      }
      segs[*seg].docs += 1.0;
      docs.push(DocToks { id: id.clone(), seg: *seg, ord: *ord, json: json.clone(), toks });
    }
    ScoreModel { schema, corpus, docs, segs, k1, b, text_fields, dict }
  }

  pub fn doc(&self, id: &str) -> Option<&DocToks> {
    self.docs.iter().find(|d| d.id == id)
  }

  fn bm25(&self, d: &DocToks, field: &str, term: &str, weight: f32) -> f32 {
    let Some(toks) = d.toks.get(field) else { return 0.0 };
    let tf = toks.iter().filter(|t| *t == term).count() as f32;
    if tf == 0.0 {
      return 0.0;
    }
    let seg = &self.segs[d.seg];
    let df = seg.df.get(&(field.to_string(), term.to_string())).copied().unwrap_or(0.0);
    let n = seg.docs;
    let avgdl = (seg.total_len.get(field).copied().unwrap_or(0.0) / n as f64) as f32;
    let dl = toks.len() as f32;
    let idf = ((n - df + 0.5) / (df + 0.5)).ln().max(0.0) + 1.0;
    let norm = if avgdl > 0.0 { dl / avgdl } else { 1.0 };
    let denom = tf + self.k1 * (1.0 - self.b + self.b * norm);
    idf * (tf * (self.k1 + 1.0)) / denom.max(1e-6) * weight
  }

  fn boost_of(node: &Value) -> f32 {
    node.get("boost").and_then(|b| b.as_f64()).unwrap_or(1.0) as f32
  }

  fn field_specs(&self, v: Option<&Value>) -> Option<Vec<(String, f32)>> {
    let a = v?.as_array()?;
    Some(
      a.iter()
        .filter_map(|x| match x {
          Value::String(s) => Some((s.clone(), 1.0)),
          Value::Object(m) => m.get("field").and_then(|f| f.as_str()).map(|s| (s.to_string(), m.get("boost").and_then(|b| b.as_f64()).unwrap_or(1.0) as f32)),
          _ => None,
        })
        .collect(),
    )
  }

  fn term_keys(&self, field: &str, value: &str, weight: f32) -> LeafKeys {
    if self.text_fields.iter().any(|f| f == field) {
      let mut seen = Vec::new();
      let mut out = Vec::new();
      for t in tokenize_default(value) {
        if !seen.contains(&t) {
          seen.push(t.clone());
          out.push((field.to_string(), t, weight));
        }
      }
      out
    } else if self.schema.keyword.iter().any(|k| k.name == field && k.indexed) {
      // keyword fields are scored like one-token fields without a length; the model does not cover them
      vec![(field.to_string(), format!("\u{0}kw:{}", value.to_ascii_lowercase()), weight)]
    } else {
      Vec::new()
    }
  }

  /// mirrors the documented composition: returns (scoring expression, score tree)
  fn build_node(&self, node: &Value, score: bool, boost: f32, leaves: &mut Vec<LeafKeys>, default_fields: &[String]) -> (Option<Expr>, Node) {
    let ty = node.get("type").and_then(|t| t.as_str()).unwrap_or("");
    let nb = Self::boost_of(node);
    let wrap = |e: &Option<Expr>| e.as_ref().map(|x| Node::Expr(x.clone())).unwrap_or(Node::Empty);
    match ty {
      "match_all" | "phrase" => (None, Node::Empty),
      "term" | "prefix" => {
        if !score {
          return (None, Node::Empty);
        }
        let field = node["field"].as_str().unwrap_or("");
        let value = node["value"].as_str().unwrap_or("");
        let keys: LeafKeys = if ty == "term" {
          self.term_keys(field, value, boost * nb)
        } else {
          let toks = tokenize_default(value);
          let p = if toks.len() == 1 { toks[0].clone() } else { value.to_lowercase() };
          self.dict.get(field).map(|d| d.iter().filter(|t| t.starts_with(&p)).map(|t| (field.to_string(), t.clone(), boost * nb)).collect()).unwrap_or_default()
        };
        leaves.push(keys);
        let e = Some(Expr::Leaf(leaves.len() - 1));
        (e.clone(), wrap(&e))
      }
      "query_string" => {
        let fields: Vec<(String, f32)> = self.field_specs(node.get("fields")).unwrap_or_else(|| default_fields.iter().map(|f| (f.clone(), 1.0)).collect());
        let parsed = parse_query_string(node["query"].as_str().unwrap_or(""));
        let mut parts = Vec::new();
        if score {
          for (f, t) in parsed.terms.iter() {
            let fs: Vec<(String, f32)> = match f {
              Some(f) => vec![(f.clone(), 1.0)],
              None => fields.clone(),
            };
            let mut keys = LeafKeys::new();
            for (fld, fb) in fs {
              keys.extend(self.term_keys(&fld, t, boost * nb * fb));
            }
            leaves.push(keys);
            parts.push(Expr::Leaf(leaves.len() - 1));
          }
        }
        let e = match parts.len() {
          0 => None,
          1 => Some(parts.pop().unwrap()),
          _ => Some(Expr::Sum(parts)),
        };
        (e.clone(), wrap(&e))
      }
      "multi_match" => {
        let fields = self.field_specs(node.get("fields")).unwrap_or_default();
        let parsed = parse_query_string(node["query"].as_str().unwrap_or(""));
        let tie = node.get("tie_breaker").and_then(|t| t.as_f64()).unwrap_or(0.0) as f32;
        let mt = node.get("match_type").and_then(|t| t.as_str()).unwrap_or("best_fields");
        let e = if mt == "best_fields" {
          // one leaf per field (allocated even when not scoring), dis_max over the fields
          let mut children = Vec::new();
          for (fld, fb) in fields.iter() {
            let mut keys = LeafKeys::new();
            if score {
              for (_, t) in parsed.terms.iter() {
                keys.extend(self.term_keys(fld, t, boost * nb * fb));
              }
            }
            leaves.push(keys);
            children.push(Expr::Leaf(leaves.len() - 1));
          }
          if children.is_empty() {
            None
          } else {
            Some(Expr::DisMax(children, tie))
          }
        } else if score {
          let mut keys = LeafKeys::new();
          for (_, t) in parsed.terms.iter() {
            for (fld, fb) in fields.iter() {
              keys.extend(self.term_keys(fld, t, boost * nb * fb));
            }
          }
          leaves.push(keys);
          Some(Expr::Leaf(leaves.len() - 1))
        } else {
          None
        };
        (e.clone(), wrap(&e))
      }
      "dis_max" => {
        let tie = node.get("tie_breaker").and_then(|t| t.as_f64()).unwrap_or(0.0) as f32;
        let mut exprs = Vec::new();
        let mut nodes = Vec::new();
        for c in node["queries"].as_array().cloned().unwrap_or_default() {
          let (e, n) = self.build_node(&c, score, boost * nb, leaves, default_fields);
          if let Some(e) = e {
            exprs.push(e);
          }
          if !matches!(n, Node::Empty) {
            nodes.push(n);
          }
        }
        let e = match exprs.len() {
          0 => None,
          1 => Some(exprs.pop().unwrap()),
          _ => Some(Expr::DisMax(exprs, tie)),
        };
        let n = match nodes.len() {
          0 => Node::Empty,
          1 => nodes.pop().unwrap(),
          _ => Node::DisMax(nodes, tie),
        };
        (e, n)
      }
      "bool" => {
        let arr = |k: &str| node.get(k).and_then(|v| v.as_array()).cloned().unwrap_or_default();
        let mut exprs = Vec::new();
        let mut nodes = Vec::new();
        for (key, sc) in [("must", score), ("should", score), ("must_not", false)] {
          for c in arr(key) {
            let (e, n) = self.build_node(&c, sc, boost * nb, leaves, default_fields);
            if let Some(e) = e {
              exprs.push(e);
            }
            if !matches!(n, Node::Empty) {
              nodes.push(n);
            }
          }
        }
        let e = match exprs.len() {
          0 => None,
          1 => Some(exprs.pop().unwrap()),
          _ => Some(Expr::Sum(exprs)),
        };
        let n = match nodes.len() {
          0 => Node::Empty,
          1 => nodes.pop().unwrap(),
          _ => Node::Sum(nodes),
        };
        (e, n)
      }
      "constant_score" => (None, Node::Constant { score: boost * nb, query: node.clone() }),
      "function_score" => {
        let (e, base) = self.build_node(&node["query"], score, boost, leaves, default_fields);
        let n = Node::FunctionScore {
          query: node["query"].clone(),
          base: Box::new(base),
          functions: node["functions"].as_array().cloned().unwrap_or_default(),
          score_mode: node.get("score_mode").and_then(|s| s.as_str()).unwrap_or("sum").to_string(),
          boost_mode: node.get("boost_mode").and_then(|s| s.as_str()).unwrap_or("multiply").to_string(),
          max_boost: node.get("max_boost").and_then(|s| s.as_f64()).map(|v| v as f32),
          min_score: node.get("min_score").and_then(|s| s.as_f64()).map(|v| v as f32),
          boost: boost * nb,
        };
        (e, n)
      }
      "rank_feature" => (
        None,
        Node::RankFeature {
          field: node["field"].as_str().unwrap_or("").to_string(),
          modifier: node.get("modifier").and_then(|s| s.as_str()).unwrap_or("none").to_string(),
          missing: node.get("missing").and_then(|s| s.as_f64()).unwrap_or(0.0) as f32,
          boost: boost * nb,
        },
      ),
      "script_score" => {
        let (e, base) = self.build_node(&node["query"], score, boost, leaves, default_fields);
        let params: BTreeMap<String, f64> = node.get("params").and_then(|p| p.as_object()).map(|m| m.iter().filter_map(|(k, v)| v.as_f64().map(|f| (k.clone(), f))).collect()).unwrap_or_default();
        let n = Node::ScriptScore { query: node["query"].clone(), base: Box::new(base), script: node["script"].as_str().unwrap_or("").to_string(), params, boost: boost * nb };
        (e, n)
      }
      _ => (None, Node::Empty),
    }
  }

  pub fn build(&self, query: &Value, default_fields: &[String]) -> Built {
    let mut leaves = Vec::new();
    let (expr, node) = self.build_node(query, true, 1.0, &mut leaves, default_fields);
    let mut seen: BTreeMap<(String, String), usize> = BTreeMap::new();
    let mut duplicate_keys = false;
    for (i, l) in leaves.iter().enumerate() {
      for (f, t, _) in l.iter() {
        if let Some(prev) = seen.insert((f.clone(), t.clone()), i) {
          if prev != i {
            duplicate_keys = true;
          }
        }
      }
    }
    Built { leaves, expr, node, duplicate_keys }
  }

  fn eval_expr(e: &Expr, leaf_scores: &[f32]) -> f32 {
    match e {
      Expr::Leaf(i) => leaf_scores.get(*i).copied().unwrap_or(0.0),
      Expr::Sum(c) => c.iter().map(|x| Self::eval_expr(x, leaf_scores)).sum(),
      Expr::DisMax(c, tie) => {
        if c.is_empty() {
          return 0.0;
        }
        let vals: Vec<f32> = c.iter().map(|x| Self::eval_expr(x, leaf_scores)).collect();
        let max = vals.iter().copied().fold(f32::NEG_INFINITY, f32::max);
        let sum: f32 = vals.iter().sum();
        max + tie * (sum - max)
      }
    }
  }

  fn numeric(d: &DocToks, field: &str) -> Option<f64> {
    match d.json.get(field) {
      Some(Value::Number(n)) => n.as_f64(),
      _ => None,
    }
  }

  fn matches(&self, qm: &QueryModel, q: &Value, d: &DocToks) -> Option<bool> {
    let view = self.corpus.docs.iter().find(|v| v.id == d.id)?;
    let t = qm.eval(q, view, true);
    if t.lo == t.hi {
      Some(t.lo)
    } else {
      None
    }
  }

  /// None = the document is dropped (or the model cannot decide: `undecided` set)
  fn eval_node(&self, qm: &QueryModel, n: &Node, d: &DocToks, leaf_scores: &[f32], undecided: &mut bool) -> Option<f32> {
    match n {
      Node::Empty => Some(1.0),
      Node::Expr(e) => Some(Self::eval_expr(e, leaf_scores)),
      Node::Sum(c) => {
        let mut sum = 0.0;
        let mut any = false;
        for x in c {
          if let Some(v) = self.eval_node(qm, x, d, leaf_scores, undecided) {
            any = true;
            sum += v;
          }
        }
        if any || c.is_empty() {
          Some(sum)
        } else {
          None
        }
      }
      Node::DisMax(c, tie) => {
        if c.is_empty() {
          return Some(0.0);
        }
        let vals: Vec<f32> = c.iter().filter_map(|x| self.eval_node(qm, x, d, leaf_scores, undecided)).collect();
        if vals.is_empty() {
          return None;
        }
        let max = vals.iter().copied().fold(f32::NEG_INFINITY, f32::max);
        let sum: f32 = vals.iter().sum();
        Some(max + tie * (sum - max))
      }
      Node::Constant { score, query } => match self.matches(qm, query, d) {
        Some(true) => Some(*score),
        Some(false) => Some(0.0),
        None => {
          *undecided = true;
          None
        }
      },
      Node::FunctionScore { query, base, functions, score_mode, boost_mode, max_boost, min_score, boost } => {
        match self.matches(qm, query, d) {
          Some(true) => {}
          Some(false) => return Some(0.0),
          None => {
            *undecided = true;
            return None;
          }
        }
        let base_score = self.eval_node(qm, base, d, leaf_scores, undecided)?;
        let mut vals: Vec<f32> = Vec::new();
        for f in functions.iter() {
          if let Some(flt) = f.get("filter") {
            if !flt.is_null() && !fmodel::passes(self.schema, flt, &d.json) {
              continue;
            }
          }
          match f["type"].as_str().unwrap_or("") {
            "weight" => vals.push(f["weight"].as_f64().unwrap_or(1.0) as f32),
            "field_value_factor" => {
              let raw = Self::numeric(d, f["field"].as_str().unwrap_or("")).unwrap_or(f.get("missing").and_then(|m| m.as_f64()).unwrap_or(0.0));
              let factor = f.get("factor").and_then(|m| m.as_f64()).unwrap_or(1.0) as f32;
              let scaled = raw * factor as f64;
              let m = match f.get("modifier").and_then(|m| m.as_str()).unwrap_or("none") {
                "log" => if scaled <= 0.0 { 0.0 } else { scaled.ln() },
                "log1p" => if scaled <= -1.0 { 0.0 } else { scaled.ln_1p() },
                "log2p" => if scaled <= -1.0 { 0.0 } else { (scaled + 1.0).log2() },
                "sqrt" => if scaled < 0.0 { 0.0 } else { scaled.sqrt() },
                "reciprocal" => if scaled == 0.0 { 0.0 } else { 1.0 / scaled },
                _ => scaled,
              };
              if m.is_finite() {
                vals.push(m as f32);
              }
            }
            "decay" => {
              if let Some(v) = Self::numeric(d, f["field"].as_str().unwrap_or("")) {
                let origin = f["origin"].as_f64().unwrap_or(0.0);
                let scale = f["scale"].as_f64().unwrap_or(1.0);
                let offset = f.get("offset").and_then(|m| m.as_f64()).unwrap_or(0.0);
                let decay = f.get("decay").and_then(|m| m.as_f64()).unwrap_or(0.5);
                let dist = ((v - origin).abs() - offset).max(0.0);
                let s = match f.get("function").and_then(|m| m.as_str()).unwrap_or("exp") {
                  // the standard decay curves: value `decay` at distance `scale`
                  "gauss" => (decay.ln() * (dist / scale) * (dist / scale)).exp(),
                  "linear" => (1.0 - (dist / scale) * (1.0 - decay)).max(0.0),
                  _ => (decay.ln() * dist / scale).exp(),
                };
                if s.is_finite() {
                  vals.push(s as f32);
                }
              }
            }
            _ => {}
          }
        }
        let mut eff = base_score;
        if eff.abs() <= f32::EPSILON && !vals.is_empty() {
          eff = 1.0;
        }
        let mut combined = if vals.is_empty() {
          eff
        } else {
          let fs = match score_mode.as_str() {
            "multiply" => vals.iter().product(),
            "max" => vals.iter().copied().fold(f32::NEG_INFINITY, f32::max),
            "min" => vals.iter().copied().fold(f32::INFINITY, f32::min),
            "avg" => vals.iter().sum::<f32>() / vals.len() as f32,
            _ => vals.iter().sum(),
          };
          match boost_mode.as_str() {
            "sum" => eff + fs,
            "replace" => fs,
            "max" => eff.max(fs),
            "min" => eff.min(fs),
            _ => eff * fs,
          }
        };
        if let Some(m) = max_boost {
          combined = combined.min(*m);
        }
        if let Some(m) = min_score {
          if combined < *m {
            return None;
          }
        }
        Some(combined * boost)
      }
      Node::RankFeature { field, modifier, missing, boost } => {
        let raw = Self::numeric(d, field).unwrap_or(*missing as f64);
        let m = match modifier.as_str() {
          "log" => if raw <= 0.0 { 0.0 } else { raw.ln() },
          "log1p" => if raw <= -1.0 { 0.0 } else { raw.ln_1p() },
          "sqrt" => if raw < 0.0 { 0.0 } else { raw.sqrt() },
          "reciprocal" => if raw == 0.0 { 0.0 } else { 1.0 / raw },
          _ => raw,
        };
        Some(m as f32 * boost)
      }
      Node::ScriptScore { query, base, script, params, boost } => {
        match self.matches(qm, query, d) {
          Some(true) => {}
          Some(false) => return Some(0.0),
          None => {
            *undecided = true;
            return None;
          }
        }
        let b = self.eval_node(qm, base, d, leaf_scores, undecided)?;
        let v = eval_script(script, b as f64, params, &|f| Self::numeric(d, f).unwrap_or(0.0))?;
        Some(v as f32 * boost)
      }
    }
  }

  fn custom(n: &Node) -> bool {
    match n {
      Node::Empty | Node::Expr(_) => false,
      Node::Sum(c) | Node::DisMax(c, _) => c.iter().any(Self::custom),
      _ => true,
    }
  }

  /// expected score of a document, or None when the model does not decide it
  pub fn score(&self, qm: &QueryModel, built: &Built, id: &str) -> Option<f32> {
    let d = self.doc(id)?;
    let leaf_scores: Vec<f32> = built.leaves.iter().map(|keys| keys.iter().map(|(f, t, w)| self.bm25(d, f, t, *w)).sum()).collect();
    if Self::custom(&built.node) {
      let mut undecided = false;
      let v = self.eval_node(qm, &built.node, d, &leaf_scores, &mut undecided);
      if undecided {
        return None;
      }
      v
    } else {
      match &built.expr {
        Some(e) if built.leaves.iter().any(|l| !l.is_empty()) => Some(Self::eval_expr(e, &leaf_scores)),
        _ => Some(1.0),
      }
    }
  }
}

/// arithmetic over numbers, `_score`, params and field names: + - * / unary minus, parentheses
pub fn eval_script(src: &str, score: f64, params: &BTreeMap<String, f64>, field: &dyn Fn(&str) -> f64) -> Option<f64> {
  struct P<'a> {
    s: &'a [u8],
    i: usize,
  }
  impl<'a> P<'a> {
    fn ws(&mut self) {
      while self.i < self.s.len() && (self.s[self.i] as char).is_whitespace() {
        self.i += 1;
      }
    }
  }
  fn expr(p: &mut P, env: &dyn Fn(&str) -> Option<f64>) -> Option<f64> {
    let mut v = term(p, env)?;
    loop {
      p.ws();
      if p.i >= p.s.len() {
        return Some(v);
      }
      match p.s[p.i] {
        b'+' => {
          p.i += 1;
          v += term(p, env)?;
        }
        b'-' => {
          p.i += 1;
          v -= term(p, env)?;
        }
        _ => return Some(v),
      }
      if !v.is_finite() {
        return None;
      }
    }
  }
  fn term(p: &mut P, env: &dyn Fn(&str) -> Option<f64>) -> Option<f64> {
    let mut v = factor(p, env)?;
    loop {
      p.ws();
      if p.i >= p.s.len() {
        return Some(v);
      }
      match p.s[p.i] {
        b'*' => {
          p.i += 1;
          v *= factor(p, env)?;
        }
        b'/' => {
          p.i += 1;
          let d = factor(p, env)?;
          if d == 0.0 {
            return None;
          }
          v /= d;
        }
        _ => return Some(v),
      }
      if !v.is_finite() {
        return None;
      }
    }
  }
  fn factor(p: &mut P, env: &dyn Fn(&str) -> Option<f64>) -> Option<f64> {
    p.ws();
    if p.i >= p.s.len() {
      return None;
    }
    let c = p.s[p.i];
    if c == b'-' {
      p.i += 1;
      return factor(p, env).map(|v| -v);
    }
    if c == b'(' {
      p.i += 1;
      let v = expr(p, env)?;
      p.ws();
      if p.i < p.s.len() && p.s[p.i] == b')' {
        p.i += 1;
        return Some(v);
      }
      return None;
    }
    let start = p.i;
    if c.is_ascii_digit() || c == b'.' {
      while p.i < p.s.len() && (p.s[p.i].is_ascii_digit() || p.s[p.i] == b'.' || p.s[p.i] == b'e' || p.s[p.i] == b'E') {
        p.i += 1;
      }
      return std::str::from_utf8(&p.s[start..p.i]).ok()?.parse().ok();
    }
    while p.i < p.s.len() && ((p.s[p.i] as char).is_alphanumeric() || p.s[p.i] == b'_' || p.s[p.i] == b'.') {
      p.i += 1;
    }
    if p.i == start {
      return None;
    }
    env(std::str::from_utf8(&p.s[start..p.i]).ok()?)
  }
  let env = |name: &str| -> Option<f64> {
    if name == "_score" {
      Some(score)
    } else if let Some(v) = params.get(name) {
      Some(*v)
    } else {
      Some(field(name))
    }
  };
  let mut p = P { s: src.as_bytes(), i: 0 };
  let v = expr(&mut p, &env)?;
  p.ws();
  if p.i != p.s.len() || !v.is_finite() {
    return None;
  }
  Some(v)
}
