pub mod c04;
pub mod c15;
pub mod c08;
