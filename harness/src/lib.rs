pub mod engine;
pub mod gen;
pub mod model;
pub mod props;
pub mod sut;
