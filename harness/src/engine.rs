//! The one engine every property module plugs into: seeded parallel proptest
//! runners, shrinking, replay files, known-finding matching, evidence.
use std::collections::{BTreeMap, BTreeSet};
use std::fmt::Debug;
use std::panic::{catch_unwind, AssertUnwindSafe};
use std::path::{Path, PathBuf};
use std::sync::atomic::{AtomicBool, AtomicU64, Ordering};
use std::sync::{Arc, Mutex};
use std::time::Instant;

use proptest::strategy::{BoxedStrategy, Strategy, ValueTree};
use proptest::test_runner::{Config, RngAlgorithm, RngSeed, TestCaseError, TestError, TestRng, TestRunner};
use serde::de::DeserializeOwned;
use serde::Serialize;
use serde_json::{json, Value};

#[derive(Clone, Copy, Debug, PartialEq, Eq)]
pub enum Tier {
  Quick,
  Thorough,
}

impl Tier {
  pub fn name(self) -> &'static str {
    match self {
      Tier::Quick => "quick",
      Tier::Thorough => "thorough",
    }
  }
  pub fn pick<T>(self, quick: T, thorough: T) -> T {
    match self {
      Tier::Quick => quick,
      Tier::Thorough => thorough,
    }
  }
}

#[derive(Clone, Debug)]
pub struct Failure {
  /// Root-cause signature: stable text a known-finding entry can name.
  pub signature: String,
  pub detail: String,
}

/// What one executed case reports back.
#[derive(Default, Debug)]
pub struct Outcome {
  /// generator-distribution labels (histogram in the evidence)
  pub classes: Vec<String>,
  /// fingerprints of distinct non-trivial sub-cases explored by this case
  pub nontrivial: Vec<u64>,
  /// number of oracle evaluations performed inside this case (>= 1)
  pub evals: u64,
  /// cases/sub-cases skipped because they fall in a listed finding's predicate
  pub excluded_known: u64,
  /// failures, possibly several (each with its own signature)
  pub failures: Vec<Failure>,
  /// When the system under test is not reproducible from the generated case alone (random ids,
  /// timestamps, hash order in file contents), the property can hand back a self-contained version
  /// of the case (e.g. with the built files attached); it is saved as the replay instead.
  pub replay_override: Option<Value>,
  /// the harness could not judge this case (watchdog, scheduler stuck): counted, reported as exit 2
  /// when nothing else failed - never as a violation
  pub inconclusive: Option<String>,
}

impl Outcome {
  pub fn new() -> Self {
    Outcome { evals: 0, ..Default::default() }
  }
  pub fn class(&mut self, c: impl Into<String>) {
    let c = c.into();
    if !self.classes.contains(&c) {
      self.classes.push(c);
    }
  }
  pub fn nontrivial(&mut self, fp: u64) {
    self.nontrivial.push(fp);
  }
  pub fn fail(&mut self, signature: impl Into<String>, detail: impl Into<String>) {
    self.failures.push(Failure { signature: signature.into(), detail: detail.into() });
  }
  pub fn failed(&self) -> bool {
    !self.failures.is_empty()
  }
}

pub struct Plan {
  pub workers: usize,
  pub cases_per_worker: u32,
}

impl Plan {
  pub fn new(workers: usize, cases_per_worker: u32) -> Plan {
    Plan { workers, cases_per_worker }
  }
}

pub trait Property: 'static {
  type Case: Serialize + DeserializeOwned + Debug + Clone + Send + 'static;
  const ID: &'static str;
  /// evidence level
  const LEVEL: &'static str = "exploration";
  fn rule() -> String;
  fn assumptions() -> Vec<String> {
    Vec::new()
  }
  fn plan(tier: Tier) -> Plan;
  fn strategy(tier: Tier) -> BoxedStrategy<Self::Case>;
  fn run(case: &Self::Case, ctx: &Ctx) -> Outcome;
  /// Optional deterministic extra cases (regression shapes), run before the random ones.
  fn fixed_cases(_tier: Tier) -> Vec<Self::Case> {
    Vec::new()
  }
  /// How a case is rendered as an evidence sample (default: the JSON itself, truncated).
  fn sample(case: &Self::Case) -> Value {
    let v = serde_json::to_value(case).unwrap_or(Value::Null);
    truncate_value(v, 4000)
  }
  /// shrink budget (iterations); lower it for properties whose cases are expensive to run
  fn shrink_iters() -> u32 {
    2000
  }
  /// Set true when the thorough tier enumerates a finite space completely.
  fn exhaustive(_tier: Tier) -> bool {
    false
  }
  /// Run the generated cases in a supervised child process: a case that aborts the process
  /// (allocation failure, stack overflow, abort in foreign code) or hangs is then identified and
  /// reported instead of taking the check down. Used by the robustness properties.
  fn isolate() -> bool {
    false
  }
  /// seconds after which a single case counts as hung (isolated runs only)
  fn hang_limit_s() -> u64 {
    120
  }
  /// Does the property itself promise termination (C16)? Otherwise a hang is exit 2 (inconclusive).
  fn hang_is_violation() -> bool {
    false
  }
}

pub fn truncate_value(v: Value, max: usize) -> Value {
  let s = v.to_string();
  if s.len() <= max {
    v
  } else {
    let mut cut = max;
    while !s.is_char_boundary(cut) {
      cut -= 1;
    }
    json!({ "truncated_json": format!("{}…", &s[..cut]), "full_len": s.len() })
  }
}

/// Per-run context handed to properties.
pub struct Ctx {
  pub tier: Tier,
  pub seed: u64,
  pub replay: bool,
  pub known: Arc<KnownFindings>,
}

impl Ctx {
  /// Is a finding with this signature listed as known (status known) for this property?
  pub fn is_known(&self, property: &str, signature: &str) -> bool {
    self.known.is_known(property, signature)
  }
}

#[derive(Debug, Clone)]
pub struct KnownEntry {
  pub status: String, // "known" | "fixed"
  pub property: String,
  pub signature: String, // for known
  pub rest: String,
}

#[derive(Debug, Default)]
pub struct KnownFindings {
  pub entries: Vec<KnownEntry>,
}

impl KnownFindings {
  pub fn load(path: &Path) -> Self {
    let mut entries = Vec::new();
    if let Ok(text) = std::fs::read_to_string(path) {
      for line in text.lines() {
        let line = line.trim();
        if line.is_empty() || line.starts_with('#') {
          continue;
        }
        // known: property=C07 signature=<sig> <what>
        // fixed: property=C16 <commit> <what failed>
        let (status, rest) = match line.split_once(':') {
          Some((s, r)) => (s.trim().to_string(), r.trim().to_string()),
          None => continue,
        };
        let mut property = String::new();
        let mut signature = String::new();
        let mut remaining = Vec::new();
        for tok in rest.split_whitespace() {
          if let Some(p) = tok.strip_prefix("property=") {
            property = p.to_string();
          } else if let Some(s) = tok.strip_prefix("signature=") {
            signature = s.to_string();
          } else {
            remaining.push(tok);
          }
        }
        entries.push(KnownEntry { status, property, signature, rest: remaining.join(" ") });
      }
    }
    KnownFindings { entries }
  }
  pub fn is_known(&self, property: &str, signature: &str) -> bool {
    self
      .entries
      .iter()
      .any(|e| e.status == "known" && e.property == property && e.signature == signature)
  }
  pub fn what(&self, property: &str, signature: &str) -> String {
    self
      .entries
      .iter()
      .find(|e| e.status == "known" && e.property == property && e.signature == signature)
      .map(|e| e.rest.clone())
      .unwrap_or_default()
  }
}

pub fn verif_root() -> PathBuf {
  if let Ok(p) = std::env::var("VERIF_ROOT") {
    return PathBuf::from(p);
  }
  PathBuf::from("/verif")
}

fn mix(seed: u64, id: &str, worker: u64) -> u64 {
  let mut h: u64 = 0xcbf29ce484222325 ^ seed.wrapping_mul(0x9E3779B97F4A7C15);
  for b in id.bytes() {
    h ^= b as u64;
    h = h.wrapping_mul(0x100000001b3);
  }
  h ^= worker.wrapping_mul(0xD6E8FEB86659FD93);
  h = h.wrapping_mul(0x100000001b3);
  h ^ (h >> 29)
}

pub fn fingerprint<T: std::hash::Hash>(t: &T) -> u64 {
  use std::hash::Hasher;
  let mut h = std::collections::hash_map::DefaultHasher::new();
  t.hash(&mut h);
  h.finish()
}

pub fn fingerprint_json<T: Serialize>(t: &T) -> u64 {
  fingerprint(&serde_json::to_string(t).unwrap_or_default())
}

#[derive(Default)]
struct Stats {
  evaluations: u64,
  cases: u64,
  nontrivial: BTreeSet<u64>,
  classes: BTreeMap<String, u64>,
  samples: Vec<Value>,
  trivial_samples: Vec<Value>,
  excluded_known: u64,
  known_hits: BTreeMap<String, (u64, Option<Value>)>,
  violations: Vec<(String, PathBuf)>,
  panics: u64,
}

thread_local! {
  static LAST_PANIC: std::cell::RefCell<Option<(String, String)>> = const { std::cell::RefCell::new(None) };
}

/// Panics are caught and classified by the properties; the hook only remembers where the last one
/// of this thread happened (file:line with the checkout prefix removed, and the message).
pub fn install_quiet_panic_hook() {
  std::panic::set_hook(Box::new(|info| {
    let loc = info.location().map(|l| format!("{}:{}", l.file(), l.line())).unwrap_or_else(|| "unknown".into());
    let loc = match loc.find("searchlite-") {
      Some(i) => loc[i..].to_string(),
      None => {
        // raised inside std / a dependency: key the panic on the innermost searchlite function on the stack
        let bt = std::backtrace::Backtrace::force_capture().to_string();
        let frame = bt
          .lines()
          .map(|l| l.trim())
          .filter_map(|l| l.split_once(": ").map(|(_, f)| f))
          .find(|f| (f.starts_with("searchlite_") || f.starts_with("<searchlite_")) && !f.contains("slverif"))
          .map(|f| f.to_string());
        match frame {
          Some(f) => format!("in:{f}"),
          None => loc,
        }
      }
    };
    let msg = if let Some(s) = info.payload().downcast_ref::<String>() {
      s.clone()
    } else if let Some(s) = info.payload().downcast_ref::<&str>() {
      s.to_string()
    } else {
      "non-string panic".to_string()
    };
    LAST_PANIC.with(|l| *l.borrow_mut() = Some((loc, msg)));
  }));
}

/// (location, message) of the last panic caught on this thread since the previous call
pub fn take_last_panic() -> Option<(String, String)> {
  LAST_PANIC.with(|l| l.borrow_mut().take())
}

fn run_guarded<P: Property>(case: &P::Case, ctx: &Ctx) -> Outcome {
  match catch_unwind(AssertUnwindSafe(|| P::run(case, ctx))) {
    Ok(o) => o,
    Err(e) => {
      let msg = if let Some(s) = e.downcast_ref::<String>() {
        s.clone()
      } else if let Some(s) = e.downcast_ref::<&str>() {
        s.to_string()
      } else {
        "non-string panic".to_string()
      };
      let mut o = Outcome::new();
      o.evals = 1;
      // strip volatile parts (addresses, temp paths) from the signature
      let short: String = msg.chars().take(80).collect();
      o.fail(format!("harness-or-code-panic:{}", sanitize_sig(&short)), msg);
      o
    }
  }
}

pub fn sanitize_sig(s: &str) -> String {
  s.chars()
    .map(|c| if c.is_ascii_alphanumeric() || "-_.:".contains(c) { c } else { '_' })
    .collect()
}

fn save_replay<P: Property>(case: &P::Case, fail: &Failure, seed: u64, tier: Tier) -> PathBuf {
  save_replay_with::<P>(case, None, fail, seed, tier)
}

fn save_replay_with<P: Property>(case: &P::Case, over: Option<&Value>, fail: &Failure, seed: u64, tier: Tier) -> PathBuf {
  let dir = verif_root().join("replays").join(P::ID);
  let _ = std::fs::create_dir_all(&dir);
  let body = json!({
    "property": P::ID,
    "seed": seed,
    "tier": tier.name(),
    "signature": fail.signature,
    "detail": fail.detail,
    "case": match over { Some(v) => v.clone(), None => serde_json::to_value(case).unwrap_or(Value::Null) },
  });
  let name = format!("{}-{:016x}.json", sanitize_sig(&fail.signature).chars().take(60).collect::<String>(), fingerprint_json(case));
  let path = dir.join(name);
  let _ = std::fs::write(&path, serde_json::to_vec_pretty(&body).unwrap());
  path
}

/// Shrunk failures of earlier runs kept under /verif/regressions/<ID>/*.json (replay-file format,
/// committed): every run of the property executes them first, bypassing the generators.
fn committed_regressions<P: Property>() -> Vec<P::Case> {
  let dir = verif_root().join("regressions").join(P::ID);
  let mut files: Vec<PathBuf> = match std::fs::read_dir(&dir) {
    Ok(rd) => rd.filter_map(|e| e.ok().map(|e| e.path())).filter(|p| p.extension().map(|x| x == "json").unwrap_or(false)).collect(),
    Err(_) => return Vec::new(),
  };
  files.sort();
  let mut out = Vec::new();
  for f in files {
    let case = std::fs::read_to_string(&f)
      .ok()
      .and_then(|t| serde_json::from_str::<Value>(&t).ok())
      .and_then(|v| serde_json::from_value::<P::Case>(v.get("case").cloned().unwrap_or(v)).ok());
    match case {
      Some(c) => out.push(c),
      None => eprintln!("note: regression file {f:?} does not decode as a {} case; skipped", P::ID),
    }
  }
  out
}

pub fn replay<P: Property>(path: &Path, tier: Tier) -> i32 {
  let known = Arc::new(KnownFindings::load(&verif_root().join("known_findings.txt")));
  let text = match std::fs::read_to_string(path) {
    Ok(t) => t,
    Err(e) => {
      eprintln!("cannot read replay {path:?}: {e}");
      return 2;
    }
  };
  let v: Value = match serde_json::from_str(&text) {
    Ok(v) => v,
    Err(e) => {
      eprintln!("replay is not JSON: {e}");
      return 2;
    }
  };
  let case_v = v.get("case").cloned().unwrap_or(v.clone());
  let case: P::Case = match serde_json::from_value(case_v) {
    Ok(c) => c,
    Err(e) => {
      eprintln!("replay does not decode as a {} case: {e}", P::ID);
      return 2;
    }
  };
  let ctx = Ctx { tier, seed: 0, replay: true, known: known.clone() };
  if std::env::var("VERIF_VERBOSE").is_err() {
    install_quiet_panic_hook();
  }
  if P::isolate() {
    limit_address_space(24 << 30);
  }
  let o = run_guarded::<P>(&case, &ctx);
  let mut code = 0;
  for f in o.failures.iter() {
    if known.is_known(P::ID, &f.signature) {
      println!("KNOWN-FINDING: property={} {} [{}]", P::ID, known.what(P::ID, &f.signature), f.signature);
      println!("  detail: {}", f.detail);
    } else {
      println!("VIOLATION property={} replay={}", P::ID, path.display());
      println!("  signature: {}", f.signature);
      println!("  detail: {}", f.detail);
      code = 1;
    }
  }
  if o.failures.is_empty() {
    println!("replay {}: property {} held on this case (evals={})", path.display(), P::ID, o.evals);
  }
  code
}

/// Address-space limit for supervised children: a runaway allocation fails (and aborts) instead of
/// exhausting the machine.
fn limit_address_space(bytes: u64) {
  unsafe {
    let lim = libc::rlimit { rlim_cur: bytes as libc::rlim_t, rlim_max: bytes as libc::rlim_t };
    libc::setrlimit(libc::RLIMIT_AS, &lim);
  }
}

thread_local! {
  static NOTE_PATH: std::cell::RefCell<Option<PathBuf>> = const { std::cell::RefCell::new(None) };
}

/// Isolated runs: remember what the current case is doing right now (which sub-case), so that the
/// supervisor can say more than "this case killed the process".
pub fn note_inflight(note: &str) {
  NOTE_PATH.with(|p| {
    if let Some(path) = p.borrow().as_ref() {
      let _ = std::fs::write(path, note.as_bytes());
    }
  });
}

fn inflight_dir() -> Option<PathBuf> {
  std::env::var("VERIF_INFLIGHT_DIR").ok().map(PathBuf::from)
}

fn run_child(args: &[String], envs: &[(&str, String)], timeout_s: u64) -> Option<i32> {
  let exe = std::env::current_exe().ok()?;
  let mut cmd = std::process::Command::new(exe);
  cmd.args(args);
  for (k, v) in envs {
    cmd.env(k, v);
  }
  let mut child = cmd.spawn().ok()?;
  let t0 = Instant::now();
  loop {
    match child.try_wait() {
      Ok(Some(st)) => return Some(st.code().unwrap_or(-1)),
      Ok(None) => {
        if t0.elapsed().as_secs() > timeout_s {
          let _ = child.kill();
          let _ = child.wait();
          return Some(-2);
        }
        std::thread::sleep(std::time::Duration::from_millis(50));
      }
      Err(_) => return None,
    }
  }
}

/// Parent side of an isolated run: spawn the real run as a child; if it dies or reports a hang, find
/// the in-flight case that does it (each worker records its current case before executing it).
fn supervise<P: Property>(tier: Tier) -> i32 {
  let t0 = Instant::now();
  let seed: i64 = std::env::var("VERIF_SEED").ok().and_then(|s| s.trim().parse::<i64>().ok()).unwrap_or(0);
  let base = if Path::new("/dev/shm").is_dir() { PathBuf::from("/dev/shm/slverif") } else { verif_root().join("target/scratch") };
  let dir = base.join(format!("inflight-{}-{}", P::ID, std::process::id()));
  let _ = std::fs::remove_dir_all(&dir);
  let _ = std::fs::create_dir_all(&dir);
  let args = vec![P::ID.to_string(), "--tier".to_string(), tier.name().to_string()];
  let budget = tier.pick(3600, 12 * 3600);
  let code = run_child(&args, &[("VERIF_CHILD", "1".into()), ("VERIF_INFLIGHT_DIR", dir.display().to_string())], budget);
  let code = code.unwrap_or(2);
  if (0..=2).contains(&code) {
    let _ = std::fs::remove_dir_all(&dir);
    return code;
  }
  // the child died (signal / abort), reported a hang (3) or ran out of its budget (-2)
  let known = KnownFindings::load(&verif_root().join("known_findings.txt"));
  let mut files: Vec<PathBuf> = std::fs::read_dir(&dir).map(|rd| rd.filter_map(|e| e.ok().map(|e| e.path())).filter(|p| p.extension().map(|x| x == "json").unwrap_or(false)).collect()).unwrap_or_default();
  files.sort();
  let mut result = 2;
  let mut reported = Vec::new();
  for f in files {
    let fargs = vec![P::ID.to_string(), "--tier".to_string(), tier.name().to_string(), "--replay".to_string(), f.display().to_string()];
    let limit = P::hang_limit_s() * 3;
    let rc = run_child(&fargs, &[("VERIF_CHILD", "1".into()), ("VERIF_QUIET_REPLAY", "1".into())], limit).unwrap_or(2);
    let sig = match rc {
      0 | 1 | 2 => continue, // behaves when run alone (a violation found this way is reported by the rerun below)
      -2 => "case-does-not-terminate".to_string(),
      other => format!("process-abort-exit-{other}"),
    };
    if sig == "case-does-not-terminate" && !P::hang_is_violation() {
      eprintln!("{}: case {} did not finish within {limit}s (inconclusive)", P::ID, f.display());
      continue;
    }
    let destdir = verif_root().join("replays").join(P::ID);
    let _ = std::fs::create_dir_all(&destdir);
    let text = std::fs::read_to_string(&f).unwrap_or_default();
    let dest = destdir.join(format!("{}-{:016x}.json", sig, fingerprint(&text)));
    let note = std::fs::read_to_string(f.with_extension("note")).unwrap_or_default();
    let body = json!({"property": P::ID, "seed": seed, "tier": tier.name(), "signature": sig, "detail": format!("the process running this case died or hung (see signature); replay it in a fresh process. Last note of the worker: {note}"), "case": serde_json::from_str::<Value>(&text).unwrap_or(Value::Null)});
    let _ = std::fs::write(&dest, serde_json::to_vec_pretty(&body).unwrap());
    if known.is_known(P::ID, &sig) {
      println!("KNOWN-FINDING: property={} {} [{}]", P::ID, known.what(P::ID, &sig), sig);
      if result == 2 {
        result = 0;
      }
    } else {
      println!("VIOLATION property={} replay={}", P::ID, dest.display());
      println!("  signature: {sig}");
      result = 1;
    }
    reported.push(sig);
  }
  let _ = std::fs::remove_dir_all(&dir);
  if result == 1 || !reported.is_empty() {
    let evidence = json!({
      "property_id": P::ID, "tier": tier.name(), "seed": seed, "level": P::LEVEL,
      "coverage": {"evaluations": 0, "cases": 0, "distinct_nontrivial": 0, "rule": P::rule(), "samples": [], "classes": {}, "note": "the supervised run died before writing its counters", "aborts": reported},
      "assumptions": P::assumptions(), "wall_s": t0.elapsed().as_secs_f64(), "violations": if result == 1 { 1 } else { 0 },
    });
    let evdir = verif_root().join("evidence");
    let _ = std::fs::create_dir_all(&evdir);
    let _ = std::fs::write(evdir.join(format!("{}.json", P::ID)), serde_json::to_vec_pretty(&evidence).unwrap());
  }
  if result == 2 {
    eprintln!("{}: supervised run ended with exit code {code} and no in-flight case reproduces it alone (inconclusive)", P::ID);
  }
  result
}

pub fn run_property<P: Property>(tier: Tier) -> i32 {
  if P::isolate() && std::env::var("VERIF_CHILD").is_err() && std::env::var("VERIF_NO_ISOLATE").is_err() {
    return supervise::<P>(tier);
  }
  if P::isolate() {
    limit_address_space(24 << 30);
  }
  let t0 = Instant::now();
  let seed: u64 = std::env::var("VERIF_SEED").ok().and_then(|s| s.trim().parse::<i64>().ok()).map(|v| v as u64).unwrap_or(0);
  let known = Arc::new(KnownFindings::load(&verif_root().join("known_findings.txt")));
  let plan = P::plan(tier);
  let workers = std::env::var("VERIF_WORKERS").ok().and_then(|s| s.parse().ok()).unwrap_or(plan.workers).max(1);
  let cases_scale: f64 = std::env::var("VERIF_SCALE").ok().and_then(|s| s.parse().ok()).unwrap_or(1.0);
  let cases_per_worker = ((plan.cases_per_worker as f64) * cases_scale).ceil().max(1.0) as u32;
  let stats = Arc::new(Mutex::new(Stats::default()));
  let stop = Arc::new(AtomicBool::new(false));
  let progress = Arc::new(AtomicU64::new(0));

  // silence the default panic printer (panics are caught and classified); keep a short line in debug mode
  let verbose = std::env::var("VERIF_VERBOSE").is_ok();
  if !verbose {
    install_quiet_panic_hook();
  }

  let record = {
    let stats = stats.clone();
    let known = known.clone();
    let stop_on_trouble = stop.clone();
    move |case: &P::Case, o: &Outcome, counting: bool| -> Option<Failure> {
      let mut st = stats.lock().unwrap();
      if counting {
        if let Some(why) = o.inconclusive.as_ref() {
          if st.panics == 0 {
            eprintln!("inconclusive case (harness, not a violation): {why}");
          }
          st.panics += 1;
          // an inconclusive case usually means every similar case will burn its watchdog too
          stop_on_trouble.store(true, Ordering::SeqCst);
        }
        st.cases += 1;
        st.evaluations += o.evals.max(1);
        st.excluded_known += o.excluded_known;
        for c in o.classes.iter() {
          *st.classes.entry(c.clone()).or_insert(0) += 1;
        }
        let before = st.nontrivial.len();
        for fp in o.nontrivial.iter() {
          st.nontrivial.insert(*fp);
        }
        if st.nontrivial.len() > before && st.samples.len() < 3 {
          st.samples.push(P::sample(case));
        } else if o.nontrivial.is_empty() && st.trivial_samples.len() < 1 {
          st.trivial_samples.push(P::sample(case));
        }
      }
      let mut unlisted = None;
      for f in o.failures.iter() {
        if known.is_known(P::ID, &f.signature) {
          if counting {
            let e = st.known_hits.entry(f.signature.clone()).or_insert((0, None));
            e.0 += 1;
            if e.1.is_none() {
              e.1 = Some(json!({"case": P::sample(case), "detail": f.detail}));
            }
          }
        } else if unlisted.is_none() {
          unlisted = Some(f.clone());
        }
      }
      unlisted
    }
  };
  let record = Arc::new(record);

  // fixed regression cases first (single thread)
  {
    let ctx = Ctx { tier, seed, replay: false, known: known.clone() };
    let mut fixed = P::fixed_cases(tier);
    fixed.extend(committed_regressions::<P>());
    for case in fixed {
      if let Some(dir) = inflight_dir() {
        let _ = std::fs::write(dir.join("fixed.json"), serde_json::to_vec(&case).unwrap_or_default());
      }
      let o = run_guarded::<P>(&case, &ctx);
      if let Some(f) = record(&case, &o, true) {
        let path = save_replay_with::<P>(&case, o.replay_override.as_ref(), &f, seed, tier);
        stats.lock().unwrap().violations.push((f.signature.clone(), path));
        stop.store(true, Ordering::SeqCst);
        break;
      }
    }
  }

  // isolated runs: per-worker start time of the case in flight (0 = idle), watched for hangs
  let inflight = inflight_dir();
  let starts: Arc<Vec<AtomicU64>> = Arc::new((0..workers).map(|_| AtomicU64::new(0)).collect());
  if inflight.is_some() {
    let starts = starts.clone();
    let limit = P::hang_limit_s();
    let t_origin = t0;
    std::thread::spawn(move || loop {
      std::thread::sleep(std::time::Duration::from_millis(500));
      let now = t_origin.elapsed().as_secs() + 1;
      for s in starts.iter() {
        let st = s.load(Ordering::Relaxed);
        if st != 0 && now.saturating_sub(st) > limit {
          eprintln!("a case has been running for more than {limit}s; stopping the run (exit 3)");
          std::process::exit(3);
        }
      }
    });
  }

  let mut handles = Vec::new();
  for w in 0..workers {
    let inflight = inflight.clone();
    let starts = starts.clone();
    let t_origin = t0;
    let known = known.clone();
    let stats = stats.clone();
    let stop = stop.clone();
    let record = record.clone();
    let progress = progress.clone();
    let h = std::thread::Builder::new()
      .name(format!("w{w}"))
      .stack_size(64 << 20)
      .spawn(move || {
        if stop.load(Ordering::SeqCst) {
          return;
        }
        let ctx = Ctx { tier, seed, replay: false, known };
        let wseed = mix(seed, P::ID, w as u64);
        let mut seed_bytes = [0u8; 32];
        for i in 0..4 {
          seed_bytes[i * 8..i * 8 + 8].copy_from_slice(&mix(wseed, "k", i as u64).to_le_bytes());
        }
        let config = Config {
          cases: cases_per_worker,
          failure_persistence: None,
          rng_seed: RngSeed::Fixed(wseed),
          max_shrink_iters: if std::env::var("VERIF_NO_SHRINK").is_ok() { 0 } else { P::shrink_iters() },
          max_global_rejects: 100_000,
          ..Config::default()
        };
        let rng = TestRng::from_seed(RngAlgorithm::ChaCha, &seed_bytes);
        let mut runner = TestRunner::new_with_rng(config, rng);
        let strategy = P::strategy(tier);
        let failed_once = AtomicBool::new(false);
        let last_fail: Mutex<Option<(P::Case, Failure, Option<Value>)>> = Mutex::new(None);
        let res = runner.run(&strategy, |case| {
          if stop.load(Ordering::SeqCst) && !failed_once.load(Ordering::SeqCst) {
            return Ok(());
          }
          let counting = !failed_once.load(Ordering::SeqCst);
          if let Some(dir) = inflight.as_ref() {
            NOTE_PATH.with(|p| {
              if p.borrow().is_none() {
                *p.borrow_mut() = Some(dir.join(format!("w{w}.note")));
              }
            });
            note_inflight("");
            let _ = std::fs::write(dir.join(format!("w{w}.json")), serde_json::to_vec(&case).unwrap_or_default());
            starts[w].store(t_origin.elapsed().as_secs() + 1, Ordering::Relaxed);
          }
          let o = run_guarded::<P>(&case, &ctx);
          if inflight.is_some() {
            starts[w].store(0, Ordering::Relaxed);
          }
          progress.fetch_add(1, Ordering::Relaxed);
          match record(&case, &o, counting) {
            None => Ok(()),
            Some(f) => {
              failed_once.store(true, Ordering::SeqCst);
              *last_fail.lock().unwrap() = Some((case.clone(), f.clone(), o.replay_override.clone()));
              Err(TestCaseError::fail(f.signature))
            }
          }
        });
        match res {
          Ok(()) => {}
          Err(TestError::Fail(_reason, case)) => {
            // minimal case: re-run for the detail of the surviving failure
            let o = run_guarded::<P>(&case, &ctx);
            let rerun = o.failures.iter().find(|f| !ctx.known.is_known(P::ID, &f.signature)).cloned();
            let (case, f, over) = match rerun {
              Some(f) => (case, f, o.replay_override.clone()),
              // the re-run passed: report the last failing run seen while shrinking
              None => match last_fail.lock().unwrap().take() {
                Some(x) => x,
                None => (case, Failure { signature: "unstable-failure".into(), detail: "shrunk case no longer fails when re-run (non-deterministic failure)".into() }, None),
              },
            };
            let path = save_replay_with::<P>(&case, over.as_ref(), &f, seed, tier);
            stats.lock().unwrap().violations.push((f.signature.clone(), path));
            stop.store(true, Ordering::SeqCst);
          }
          Err(TestError::Abort(reason)) => {
            eprintln!("worker {w}: generator aborted: {reason}");
            stats.lock().unwrap().panics += 1;
          }
        }
      })
      .expect("spawn worker");
    handles.push(h);
  }
  let mut harness_trouble = false;
  for h in handles {
    if h.join().is_err() {
      harness_trouble = true;
    }
  }
  let st = stats.lock().unwrap();
  if st.panics > 0 {
    harness_trouble = true;
  }
  let wall = t0.elapsed().as_secs_f64();

  for (sig, (n, _)) in st.known_hits.iter() {
    println!("KNOWN-FINDING: property={} {} [signature={} hits={}]", P::ID, known.what(P::ID, sig), sig, n);
  }
  let mut code = 0;
  let mut seen = BTreeSet::new();
  for (sig, path) in st.violations.iter() {
    if seen.insert(sig.clone()) {
      println!("VIOLATION property={} replay={}", P::ID, path.display());
      println!("  signature: {sig}");
    }
    code = 1;
  }

  let mut samples: Vec<Value> = st.samples.clone();
  if samples.is_empty() {
    samples.extend(st.trivial_samples.iter().cloned());
  }
  for (sig, (_n, s)) in st.known_hits.iter() {
    if let Some(s) = s {
      samples.push(json!({"known_finding": sig, "example": s}));
    }
  }
  let evidence = json!({
    "property_id": P::ID,
    "tier": tier.name(),
    "seed": seed as i64,
    "level": P::LEVEL,
    "coverage": {
      "evaluations": st.evaluations,
      "cases": st.cases,
      "distinct_nontrivial": st.nontrivial.len(),
      "rule": P::rule(),
      "samples": samples,
      "classes": st.classes,
      "excluded_known": st.excluded_known,
      "known_finding_hits": st.known_hits.iter().map(|(k, v)| (k.clone(), json!(v.0))).collect::<BTreeMap<_, _>>(),
      "workers": workers,
      "cases_per_worker": cases_per_worker,
      "exhaustive": P::exhaustive(tier),
    },
    "assumptions": P::assumptions(),
    "wall_s": wall,
    "violations": st.violations.len(),
  });
  let evdir = verif_root().join("evidence");
  let _ = std::fs::create_dir_all(&evdir);
  let evpath = evdir.join(format!("{}.json", P::ID));
  if let Err(e) = std::fs::write(&evpath, serde_json::to_vec_pretty(&evidence).unwrap()) {
    eprintln!("cannot write evidence {evpath:?}: {e}");
    harness_trouble = true;
  }
  println!(
    "{} {}: cases={} evaluations={} distinct_nontrivial={} known_hits={} violations={} wall={:.1}s",
    P::ID,
    tier.name(),
    st.cases,
    st.evaluations,
    st.nontrivial.len(),
    st.known_hits.values().map(|v| v.0).sum::<u64>(),
    st.violations.len(),
    wall
  );
  if code == 0 && harness_trouble {
    return 2;
  }
  code
}

/// Generate one value from a strategy with a fixed seed (used by enumerating properties).
pub fn sample_strategy<T: Debug>(s: &BoxedStrategy<T>, seed: u64) -> T {
  let mut seed_bytes = [0u8; 32];
  for i in 0..4 {
    seed_bytes[i * 8..i * 8 + 8].copy_from_slice(&mix(seed, "s", i as u64).to_le_bytes());
  }
  let rng = TestRng::from_seed(RngAlgorithm::ChaCha, &seed_bytes);
  let mut runner = TestRunner::new_with_rng(Config::default(), rng);
  s.new_tree(&mut runner).expect("strategy").current()
}
