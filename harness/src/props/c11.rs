//! C11 — cursor pagination is complete, duplicate-free and safe.
use std::collections::BTreeSet;

use proptest::prelude::*;
use proptest::sample::select;
use serde::{Deserialize, Serialize};
use serde_json::{json, Value};

use crate::engine::{fingerprint_json, Ctx, Outcome, Plan, Property, Tier};
use crate::props::c08;
use crate::qgen::QGen;
use crate::rank::{self, hits, H};
use crate::scoreworld::{self, World, WorldOpts};
use crate::sut;

#[derive(Clone, Debug, Serialize, Deserialize)]
pub struct Case {
  pub world: World,
  pub query: Value,
  pub filter: Option<Value>,
  pub sort: Vec<Value>,
  pub other_sort: Vec<Value>,
  pub page: usize,
  pub execution: String,
  /// 0 = add+commit, 1 = compact, 2 = delete-only commit
  pub misuse: u8,
  /// `candidate_size` of the paged requests (larger than the page, as used with rescoring)
  #[serde(default)]
  pub candidate_size: Option<usize>,
}

pub struct C11;

fn resolved(sort: &[Value]) -> Vec<(String, String)> {
  let s: Vec<(String, String)> = sort
    .iter()
    .map(|k| {
      let f = k["field"].as_str().unwrap_or("").to_string();
      let o = k.get("order").and_then(|o| o.as_str()).map(|s| s.to_string()).unwrap_or_else(|| if f == "_score" { "desc".into() } else { "asc".into() });
      (f, o)
    })
    .collect();
  if s.is_empty() {
    vec![("_score".into(), "desc".into())]
  } else {
    s
  }
}

fn request(case: &Case, sort: &[Value], limit: usize, cursor: Option<&str>) -> Value {
  let mut r = json!({"query": case.query, "limit": limit, "execution": case.execution, "sort": sort});
  if let Some(f) = &case.filter {
    r["filter"] = f.clone();
  }
  if let Some(c) = cursor {
    r["cursor"] = json!(c);
  }
  if let Some(cs) = case.candidate_size {
    if limit == case.page {
      r["candidate_size"] = json!(cs);
    }
  }
  r
}

impl Property for C11 {
  type Case = Case;
  const ID: &'static str = "C11";
  fn rule() -> String {
    "cases = a tie-heavy corpus (tiny value domains, short texts) of 5-60 documents in 1-4 segments with deletions, a query (match_all or a scored tree), optional filter, a sort plan of 0-3 keys over _score/keyword/i64/f64, page size 1..7, an execution strategy and (30%) a candidate_size of page+1..8 on the paged requests; the walk over next_cursor is compared with one request whose limit covers all matches (order, ids, scores within tolerance, no duplicate, full pages, last page without cursor, total_hits_estimate <= true count and == when exhaustive); then the first page's cursor is replayed after an add+commit, a compaction or a delete-only commit, and against a different sort plan (must be rejected; after a delete-only commit: rejected or live hits). Non-trivial = walk of >=3 pages crossing a segment boundary with a tie (equal user sort key) on a page boundary; distinct = hash of (query, sort, page, corpus)".into()
  }
  fn assumptions() -> Vec<String> {
    vec!["a cursor replayed after a delete-only commit (index generation unchanged) is judged leniently: an error, or hits that are live in the new state (scores and therefore positions legitimately change with the segment statistics)".into()]
  }
  fn plan(tier: Tier) -> Plan {
    Plan { workers: 16, cases_per_worker: tier.pick(1200, 40000) }
  }
  fn shrink_iters() -> u32 {
    800
  }
  fn strategy(_tier: Tier) -> BoxedStrategy<Case> {
    let schema = scoreworld::schema();
    let mut g = QGen::new(&schema, 6, false);
    g.phrases = false;
    let w = scoreworld::world(WorldOpts { min_docs: 5, max_docs: 60, max_commits: 4, deletes: true, ties: true, vocab: 6 });
    let query = prop_oneof![2 => Just(json!({"type": "match_all"})), 5 => g.tree(2)];
    (w, query, proptest::option::weighted(0.2, c08::root_filter(&schema, 1)), scoreworld::sort_plan(3), scoreworld::sort_plan(2), 1usize..8, select(vec!["bm25", "wand", "bmw"]), 0u8..3, proptest::option::weighted(0.3, 1usize..9))
      .prop_map(|(world, query, filter, sort, other_sort, page, execution, misuse, extra)| Case { world, query, filter, sort, other_sort, page, execution: execution.to_string(), misuse, candidate_size: extra.map(|e| page + e) })
      .boxed()
  }
  fn run(case: &Case, _ctx: &Ctx) -> Outcome {
    let mut out = Outcome::new();
    out.evals = 1;
    let built = match case.world.build("c11") {
      Ok(b) => b,
      Err(e) => {
        out.fail("corpus-build-failed", format!("{e:#}"));
        return out;
      }
    };
    let reader = match built.idx.reader() {
      Ok(r) => r,
      Err(e) => {
        out.fail("reader-open-failed", format!("{e:#}"));
        return out;
      }
    };
    let n = case.world.docs.len();
    let big_req = request(case, &case.sort, n + 5, None);
    let big = match sut::search(&reader, big_req.clone()) {
      Ok(r) => r,
      Err(e) => {
        // requests the engine rejects outright are not about cursors
        out.class("request-rejected");
        let _ = e;
        return out;
      }
    };
    if big.next_cursor.is_some() {
      out.fail("cursor-on-complete-result", format!("limit {} covers all {} matches but next_cursor is set; request {big_req}", n + 5, big.hits.len()));
      return out;
    }
    let all: Vec<H> = hits(&big);
    let true_count = all.len() as u64;
    let score_only = resolved(&case.sort) == vec![("_score".to_string(), "desc".to_string())];
    let exhaustive = case.execution == "bm25" || !score_only;
    if exhaustive && big.total_hits_estimate != true_count {
      out.fail("total-hits-not-exact", format!("exhaustive execution: total_hits_estimate {} but {} hits returned with a covering limit; request {big_req}", big.total_hits_estimate, true_count));
      return out;
    }
    // walk
    let mut walked: Vec<H> = Vec::new();
    let mut cursor: Option<String> = None;
    let mut pages = 0usize;
    let mut first_cursor: Option<String> = None;
    let mut boundaries: Vec<usize> = Vec::new();
    loop {
      let req = request(case, &case.sort, case.page, cursor.as_deref());
      let r = match sut::search(&reader, req.clone()) {
        Ok(r) => r,
        Err(e) => {
          out.fail("cursor-walk-error", format!("page {pages}: {e:#}; request {req}; walked so far {:?}", walked.iter().map(|h| &h.id).collect::<Vec<_>>()));
          return out;
        }
      };
      pages += 1;
      let hs = hits(&r);
      if r.total_hits_estimate > true_count {
        out.fail("total-hits-exceeds-true", format!("page {pages}: total_hits_estimate {} > true number of matches {}; request {req}", r.total_hits_estimate, true_count));
        return out;
      }
      if exhaustive && r.total_hits_estimate != true_count {
        out.fail("total-hits-not-exact", format!("page {pages}: exhaustive execution but total_hits_estimate {} != {}; request {req}", r.total_hits_estimate, true_count));
        return out;
      }
      walked.extend(hs.iter().cloned());
      match r.next_cursor {
        Some(c) => {
          if hs.len() != case.page {
            out.fail("short-page-with-cursor", format!("page {pages} has {} hits (page size {}) but a next_cursor", hs.len(), case.page));
            return out;
          }
          if first_cursor.is_none() {
            first_cursor = Some(c.clone());
          }
          boundaries.push(walked.len());
          cursor = Some(c);
        }
        None => break,
      }
      if pages > n + 3 {
        out.fail("cursor-never-ends", format!("more than {} pages for {} matches", n + 3, true_count));
        return out;
      }
    }
    let mut seen = BTreeSet::new();
    for h in walked.iter() {
      if !seen.insert(h.id.clone()) {
        out.fail("duplicate-across-pages", format!("doc {} returned twice; pages {:?}; single request {:?}; request {big_req}", h.id, walked.iter().map(|h| &h.id).collect::<Vec<_>>(), all.iter().map(|h| &h.id).collect::<Vec<_>>()));
        return out;
      }
    }
    let ids_w: Vec<&String> = walked.iter().map(|h| &h.id).collect();
    let ids_a: Vec<&String> = all.iter().map(|h| &h.id).collect();
    if ids_w != ids_a {
      // identical order is required unless the difference is a permutation inside score ties (score sort only)
      let ok = score_only && rank::same_full_ranking(&walked, &all).is_ok();
      if !ok {
        out.fail("pages-differ-from-single-request", format!("pages {:?} vs single request {:?}; page size {}; request {big_req}", ids_w, ids_a, case.page));
        return out;
      }
    }
    if let Err(e) = rank::same_full_ranking(&walked, &all) {
      out.fail("pages-differ-from-single-request", format!("{e}; request {big_req}"));
      return out;
    }
    out.class(format!("pages:{}", pages.min(4)));
    if case.candidate_size.is_some() {
      out.class("candidate-size");
    }
    // non-trivial: >=3 pages, crossing segments, tie on a page boundary
    if pages >= 3 && built.segments >= 2 {
      let key_of = |id: &str| -> Vec<Value> {
        let d = built.live.iter().find(|(i, _, _, _)| i == id).map(|(_, d, _, _)| d.clone()).unwrap_or(Value::Null);
        resolved(&case.sort).iter().map(|(f, _)| if f == "_score" { Value::Null } else { d.get(f).cloned().unwrap_or(Value::Null) }).collect()
      };
      let tie = boundaries.iter().any(|b| *b < walked.len() && *b > 0 && key_of(&walked[b - 1].id) == key_of(&walked[*b].id) && (!resolved(&case.sort).iter().any(|(f, _)| f == "_score") || rank::close(walked[b - 1].score, walked[*b].score)));
      if tie {
        out.nontrivial(fingerprint_json(&(&case.query, &case.sort, case.page, n)));
      }
    }
    // misuse
    let Some(cur) = first_cursor else { return out };
    // (d) other sort plan
    if resolved(&case.other_sort) != resolved(&case.sort) {
      out.evals += 1;
      let req = request(case, &case.other_sort, case.page, Some(&cur));
      if let Ok(r) = sut::search(&reader, req.clone()) {
        out.fail("cursor-accepted-for-other-sort", format!("cursor of sort {:?} accepted for sort {:?}: returned {:?}; request {req}", case.sort, case.other_sort, sut::hit_ids(&r)));
        return out;
      }
      out.class("misuse:other-sort");
    }
    out.evals += 1;
    let first_page: BTreeSet<String> = walked.iter().take(case.page).map(|h| h.id.clone()).collect();
    match case.misuse {
      0 => {
        let mut w = built.idx.writer().expect("writer");
        w.add_document(&sut::document(&json!({"_id": "zz-new", "body": "rust fox", "year": 1}))).expect("add");
        w.commit().expect("commit");
        let r2 = built.idx.reader().expect("reader");
        let req = request(case, &case.sort, case.page, Some(&cur));
        if let Ok(r) = sut::search(&r2, req.clone()) {
          out.fail("stale-cursor-accepted", format!("cursor accepted after an add+commit (new index generation): returned {:?}; request {req}", sut::hit_ids(&r)));
          return out;
        }
        out.class("misuse:add-commit");
      }
      1 => {
        if built.segments >= 2 {
          built.idx.compact().expect("compact");
          let r2 = built.idx.reader().expect("reader");
          let req = request(case, &case.sort, case.page, Some(&cur));
          if let Ok(r) = sut::search(&r2, req.clone()) {
            out.fail("stale-cursor-accepted", format!("cursor accepted after compaction: returned {:?}; request {req}", sut::hit_ids(&r)));
            return out;
          }
          out.class("misuse:compaction");
        }
      }
      _ => {
        // delete-only commit of some live document that is not on the first page
        if let Some((victim, _, _, _)) = built.live.iter().find(|(id, _, _, _)| !first_page.contains(id)) {
          let mut w = built.idx.writer().expect("writer");
          w.delete_documents(&[victim.clone()]).expect("delete");
          w.commit().expect("commit");
          let r2 = built.idx.reader().expect("reader");
          let req = request(case, &case.sort, case.page, Some(&cur));
          if let Ok(r) = sut::search(&r2, req.clone()) {
            for id in sut::hit_ids(&r) {
              // scores legitimately change with the segment statistics, so an id of the first page
              // may sort after the cursor key in the new state; only a deleted document is wrong
              if id == *victim {
                out.fail("cursor-after-delete-wrong-page", format!("after a delete-only commit of {victim} the replayed cursor returned the deleted document; request {req}"));
                return out;
              }
            }
          }
          out.class("misuse:delete-only-commit");
        }
      }
    }
    out
  }
}
