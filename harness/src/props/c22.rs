//! C22 — completion suggestions are consistent with the term dictionary.
use std::collections::{BTreeMap, BTreeSet};

use proptest::collection::vec;
use proptest::prelude::*;
use proptest::sample::select;
use serde::{Deserialize, Serialize};
use serde_json::{json, Map, Value};

use crate::engine::{fingerprint_json, Ctx, Outcome, Plan, Property, Tier};
use crate::gen::{self, KwSpec, SchemaSpec, TextSpec};
use crate::qmodel::{levenshtein, Corpus};
use crate::rank::close;
use crate::sut::{self, StorageKind};

#[derive(Clone, Debug, Serialize, Deserialize)]
pub struct Case {
  pub analyzer: String,
  pub docs: Vec<Map<String, Value>>,
  /// alternative layouts (weights); the single-segment layout is always tried
  pub layouts: Vec<Vec<usize>>,
  pub field: String,
  pub prefix: String,
  pub size: usize,
  pub fuzzy: Option<Value>,
}

pub struct C22;

const SCAN_CAP: usize = 64; // the documented "scan cap" (DEFAULT_SUGGEST_SCAN); the property only speaks about fewer matches
const MAX_CANDIDATES: usize = 256;

fn schema(analyzer: &str) -> SchemaSpec {
  let analyzers: Vec<Value> = gen::analyzer_menu().into_iter().filter(|(n, _)| n == analyzer).map(|(_, v)| v).collect();
  SchemaSpec {
    doc_id_field: "_id".into(),
    analyzers,
    text: vec![TextSpec { name: "title".into(), analyzer: analyzer.into(), search_analyzer: None, stored: true, indexed: true, nullable: false, saty: None }],
    keyword: vec![KwSpec { name: "tag".into(), stored: true, indexed: true, fast: true, nullable: false }],
    numeric: vec![],
    nested: vec![],
  }
}

const WORDS: &[&str] = &["rust", "rust", "rust", "ruby", "ruby", "rubber", "run", "runs", "running", "runner", "rug", "rugs", "sea", "seal", "search", "search", "engine", "fast", "fox", "the", "a", "Rust", "RUBY", "rüst", "r", "ru"];
const TAGS: &[&str] = &["red", "Red", "RED", "rose", "ruby", "green", "re", "r", "Éa", "éa", "ÉB", "éb", "two words"];

fn word(many: bool) -> BoxedStrategy<String> {
  if many {
    // a dense family sharing the prefix "ru": up to 8*8 = 64 distinct terms (the scan-cap stratum)
    prop_oneof![
      1 => select(WORDS.to_vec()).prop_map(|s| s.to_string()),
      4 => (0u8..8, 0u8..8).prop_map(|(a, b)| format!("ru{}{}", (b'a' + a) as char, (b'a' + b) as char)),
    ]
    .boxed()
  } else {
    prop_oneof![
      6 => select(WORDS.to_vec()).prop_map(|s| s.to_string()),
      1 => (0u8..4, 0u8..3).prop_map(|(a, b)| format!("ru{}{}", (b'a' + a) as char, (b'a' + b) as char)),
    ]
    .boxed()
  }
}

fn doc(many: bool) -> BoxedStrategy<Map<String, Value>> {
  let maxw = if many { 14 } else { 6 };
  let title = prop_oneof![
    6 => vec((word(many), select(gen::SEPS.to_vec())), 0..maxw).prop_map(|p| json!(p.iter().map(|(w, s)| format!("{w}{s}")).collect::<String>())),
    1 => vec(vec(word(many), 0..3).prop_map(|w| w.join(" ")), 0..3).prop_map(|v| json!(v)),
  ];
  let tag = prop_oneof![5 => select(TAGS.to_vec()).prop_map(|s| json!(s)), 2 => vec(select(TAGS.to_vec()), 0..3).prop_map(|v| json!(v)), 1 => Just(Value::Null)];
  (title, tag)
    .prop_map(|(title, tag)| {
      let mut m = Map::new();
      m.insert("title".into(), title);
      if !tag.is_null() {
        m.insert("tag".into(), tag);
      }
      m
    })
    .boxed()
}

fn normalise(weights: &[usize], n: usize) -> Vec<usize> {
  let total: usize = weights.iter().sum();
  let mut commits: Vec<usize> = weights.iter().map(|w| w * n / total.max(1)).collect();
  let assigned: usize = commits.iter().sum();
  if let Some(last) = commits.last_mut() {
    *last += n - assigned;
  }
  commits.retain(|c| *c > 0);
  if commits.is_empty() {
    commits.push(n);
  }
  commits
}

fn char_prefix(s: &str, n: usize) -> String {
  s.chars().take(n).collect()
}

#[derive(Clone, Debug, PartialEq)]
struct Opt {
  text: String,
  score: f32,
  doc_freq: u64,
}

fn options(reader: &searchlite_core::api::IndexReader, case: &Case, size: usize) -> anyhow::Result<Vec<Opt>> {
  let mut s = json!({"type": "completion", "field": case.field, "prefix": case.prefix, "size": size});
  if let Some(f) = &case.fuzzy {
    s["fuzzy"] = f.clone();
  }
  let res = sut::search(reader, json!({"query": {"type": "match_all"}, "limit": 1, "execution": "bm25", "suggest": {"s": s}}))?;
  let r = res.suggest.get("s").ok_or_else(|| anyhow::anyhow!("no suggest entry 's' in the response"))?;
  Ok(r.options.iter().map(|o| Opt { text: o.text.clone(), score: o.score, doc_freq: o.doc_freq }).collect())
}

fn same_options(a: &[Opt], b: &[Opt]) -> bool {
  a.len() == b.len() && a.iter().zip(b.iter()).all(|(x, y)| x.text == y.text && x.doc_freq == y.doc_freq && close(x.score, y.score))
}

impl Property for C22 {
  type Case = Case;
  const ID: &'static str = "C22";
  fn rule() -> String {
    "cases = a corpus of 3-40 documents without deletions (a text field under one of 5 analyzers, a keyword field; vocabulary sharing prefixes, a dense 'ru??' family for the scan-cap stratum) committed under 2-4 segment layouts, and a completion request (field, single-word prefix of length 0-5 incl. upper case, size 1..10, optional fuzzy options). Oracle: (a) every option is an indexed term of the field that starts with the analyzed prefix (fuzzy: within min(max_edits,2) edits of it and sharing its first prefix_length characters), no option twice, at most size options, sorted by (score desc, text asc); (b) doc_freq == number of indexed documents containing the term; (c) while the matching (term, segment) pairs stay below the scan cap: the options are the first `size` entries of the list returned for a covering size, and that list holds exactly the eligible terms; (d) same answer under every layout, on repeated calls and on a fresh reader. Non-trivial = >= 2 segments share a matching term and more terms match than `size`; distinct = hash of (docs, request)".into()
  }
  fn assumptions() -> Vec<String> {
    vec![
      "the analyzed prefix is the last token the field's search analyzer produces for the prefix (prefixes are single words); when analysis removes the prefix entirely (stop word) only determinism and layout independence are judged".into(),
      "keyword terms are the ASCII-lower-cased values; fuzzy max_edits 0 and the scan-cap boundary itself (exactly cap-many matches) are not generated / not judged for completeness".into(),
      "scores are compared with the f32 tolerance 1e-5 relative across layouts".into(),
    ]
  }
  fn plan(tier: Tier) -> Plan {
    Plan { workers: 16, cases_per_worker: tier.pick(1500, 40000) }
  }
  fn shrink_iters() -> u32 {
    1500
  }
  fn strategy(_tier: Tier) -> BoxedStrategy<Case> {
    let analyzer = select(vec!["default", "default", "wslow", "uni", "stem", "stop"]);
    let fuzzy = (1u8..4, 0usize..3, select(vec![50usize, 50, 3, 0, 300]), select(vec![0usize, 2, 3])).prop_map(|(e, p, x, m)| json!({"max_edits": e, "prefix_length": p, "max_expansions": x, "min_length": m}));
    (analyzer, any::<bool>(), prop::bool::weighted(0.2))
      .prop_flat_map(move |(analyzer, on_tag, many)| {
        let prefixes: Vec<&'static str> = if on_tag { vec!["", "r", "re", "R", "RE", "red", "ro", "g", "é", "É", "Éa", "ÉB", "éB", "two", "x"] } else { vec!["", "r", "ru", "ru", "Ru", "RU", "rus", "rub", "run", "runn", "rust", "s", "se", "sea", "the", "th", "rü", "rua", "ruab", "x"] };
        (
          Just(analyzer.to_string()),
          vec(doc(many), if many { 6..40 } else { 3..30 }),
          vec(vec(1usize..50, 2..5), 1..3),
          Just(if on_tag { "tag".to_string() } else { "title".to_string() }),
          select(prefixes).prop_map(|s| s.to_string()),
          1usize..11,
          proptest::option::weighted(0.35, fuzzy.clone()),
        )
      })
      .prop_map(|(analyzer, docs, layouts, field, prefix, size, fuzzy)| Case { analyzer, docs, layouts, field, prefix, size, fuzzy })
      .boxed()
  }
  fn run(case: &Case, _ctx: &Ctx) -> Outcome {
    let mut out = Outcome::new();
    out.evals = 1;
    let schema = schema(&case.analyzer);
    let n = case.docs.len();
    let docs: Vec<(String, Value)> = case
      .docs
      .iter()
      .enumerate()
      .map(|(i, m)| {
        let mut m = m.clone();
        m.insert("_id".into(), json!(format!("d{i:05}")));
        (format!("d{i:05}"), Value::Object(m))
      })
      .collect();
    let corpus = Corpus::new(&schema, &docs);
    // term -> number of indexed documents containing it
    let mut df: BTreeMap<String, u64> = BTreeMap::new();
    let doc_terms: Vec<BTreeSet<String>> = corpus
      .docs
      .iter()
      .map(|d| {
        let mut s = BTreeSet::new();
        if case.field == "title" {
          if let Some(t) = d.text.get("title") {
            s.extend(t.iter().map(|x| x.0.clone()));
          }
        } else if let Some(k) = d.keyword.get("tag") {
          s.extend(k.iter().cloned());
        }
        s.remove("");
        s
      })
      .collect();
    for s in doc_terms.iter() {
      for t in s.iter() {
        *df.entry(t.clone()).or_insert(0) += 1;
      }
    }
    // analyzed prefix
    let analyzed: Option<String> = if case.field == "title" {
      let an = corpus.analyzers.build_analyzers().expect("analyzers");
      let toks = an.search_analyzer("title").map(|a| a.analyze(&case.prefix)).unwrap_or_default();
      match toks.last() {
        Some(t) => Some(t.text.clone()),
        None => {
          if case.prefix.is_empty() {
            Some(String::new())
          } else {
            None
          }
        }
      }
    } else {
      Some(case.prefix.to_ascii_lowercase())
    };
    // fuzzy parameters
    let fz = case.fuzzy.as_ref().map(|f| (f["max_edits"].as_u64().unwrap_or(1).min(2) as usize, f["prefix_length"].as_u64().unwrap_or(1) as usize, f["max_expansions"].as_u64().unwrap_or(50) as usize, f["min_length"].as_u64().unwrap_or(3) as usize));
    let eligible = |term: &str, p: &str| -> bool {
      match fz {
        None => term.starts_with(p),
        Some((edits, plen, maxexp, minlen)) => {
          let tl = p.chars().count();
          if tl < minlen || maxexp == 0 || edits == 0 {
            return false;
          }
          let pl = plen.min(tl);
          char_prefix(term, pl) == char_prefix(p, pl) && term.chars().count() >= pl && levenshtein(p, term) <= edits
        }
      }
    };

    let mut layouts: Vec<Vec<usize>> = vec![vec![n]];
    for l in case.layouts.iter() {
      layouts.push(normalise(l, n));
    }
    if n <= 12 {
      layouts.push(vec![1; n]);
    }
    out.class(format!("field:{}", case.field));
    out.class(if case.fuzzy.is_some() { "fuzzy" } else { "prefix" });
    let mut first: Option<(Vec<usize>, Vec<Opt>)> = None;
    for layout in layouts.iter() {
      let scratch = sut::Scratch::new("c22");
      let root = scratch.sub("idx");
      let storage = sut::make_storage(&root, StorageKind::Mem);
      let opts = sut::default_options(&root, StorageKind::Mem);
      let idx = match sut::create_index(&root, &schema, opts, storage) {
        Ok(i) => i,
        Err(e) => {
          out.fail("create-failed", format!("{e:#}"));
          return out;
        }
      };
      let build = || -> anyhow::Result<()> {
        let mut w = idx.writer()?;
        let mut next = 0usize;
        for c in layout.iter() {
          for _ in 0..*c {
            w.add_document(&sut::document(&docs[next].1))?;
            next += 1;
          }
          w.commit()?;
        }
        Ok(())
      };
      if let Err(e) = build() {
        out.fail("corpus-build-failed", format!("{e:#}"));
        return out;
      }
      let reader = match idx.reader() {
        Ok(r) => r,
        Err(e) => {
          out.fail("reader-open-failed", format!("{e:#}"));
          return out;
        }
      };
      let got = match options(&reader, case, case.size) {
        Ok(o) => o,
        Err(e) => {
          out.fail("suggest-request-failed", format!("{e:#}"));
          return out;
        }
      };
      let ctxt = format!("field {} prefix {:?} (analyzed {:?}) size {} fuzzy {:?} analyzer {} layout {:?}", case.field, case.prefix, analyzed, case.size, case.fuzzy, case.analyzer, layout);
      // (a) shape
      if got.len() > case.size {
        out.fail("more-options-than-size", format!("{} options: {got:?}; {ctxt}", got.len()));
        return out;
      }
      for w in got.windows(2) {
        let ordered = w[0].score > w[1].score || (w[0].score == w[1].score && w[0].text < w[1].text);
        if !ordered {
          let sig = if w[0].text == w[1].text { "option-returned-twice" } else { "options-not-sorted" };
          out.fail(sig, format!("{:?} before {:?}; {ctxt}", w[0], w[1]));
          return out;
        }
      }
      let texts: BTreeSet<&str> = got.iter().map(|o| o.text.as_str()).collect();
      if texts.len() != got.len() {
        out.fail("option-returned-twice", format!("{got:?}; {ctxt}"));
        return out;
      }
      // determinism: repeated call and a second reader
      for round in 0..2 {
        let again = if round == 0 { options(&reader, case, case.size) } else { idx.reader().and_then(|r| options(&r, case, case.size)) };
        match again {
          Ok(a) => {
            if !(a.len() == got.len() && a.iter().zip(got.iter()).all(|(x, y)| x.text == y.text && x.doc_freq == y.doc_freq && x.score.to_bits() == y.score.to_bits())) {
              out.fail("suggestions-not-deterministic", format!("same request on the same index: {got:?} then {a:?}; {ctxt}"));
              return out;
            }
          }
          Err(e) => {
            out.fail("suggest-request-failed", format!("{e:#}"));
            return out;
          }
        }
      }
      if let Some(p) = &analyzed {
        // segment layout of the model: which documents went to which segment
        let mut seg_of = Vec::with_capacity(n);
        for (s, c) in layout.iter().enumerate() {
          for _ in 0..*c {
            seg_of.push(s);
          }
        }
        let mut pairs = 0usize;
        let mut elig: BTreeSet<String> = BTreeSet::new();
        let mut shared = false;
        for (t, _) in df.iter() {
          if eligible(t, p) {
            elig.insert(t.clone());
            let segs: BTreeSet<usize> = doc_terms.iter().enumerate().filter(|(_, s)| s.contains(t)).map(|(i, _)| seg_of[i]).collect();
            pairs += segs.len();
            if segs.len() >= 2 {
              shared = true;
            }
          }
        }
        for o in got.iter() {
          if !df.contains_key(&o.text) {
            out.fail("option-is-not-an-indexed-term", format!("{o:?} is not a term of {} in any document; {ctxt}", case.field));
            return out;
          }
          if !elig.contains(&o.text) {
            out.fail("option-does-not-match-prefix", format!("{o:?}; {ctxt}"));
            return out;
          }
        }
        let cap = match fz {
          None => SCAN_CAP,
          Some((_, _, maxexp, _)) => maxexp.min(MAX_CANDIDATES).max(1),
        };
        let below_cap = pairs < cap;
        for o in got.iter() {
          let want = df[&o.text];
          if below_cap && o.doc_freq != want {
            out.fail("doc-freq-wrong", format!("{o:?}: {want} indexed documents contain the term; {ctxt}"));
            return out;
          }
          if o.doc_freq > want {
            out.fail("doc-freq-too-large", format!("{o:?}: only {want} indexed documents contain the term; {ctxt}"));
            return out;
          }
        }
        if below_cap {
          // (c) covering request
          let cover = elig.len() + 3;
          let full = match options(&reader, case, cover) {
            Ok(o) => o,
            Err(e) => {
              out.fail("suggest-request-failed", format!("{e:#}"));
              return out;
            }
          };
          let full_texts: BTreeSet<String> = full.iter().map(|o| o.text.clone()).collect();
          // a larger size raises the fuzzy cap (max(max_expansions, size)), never lowers it
          if full_texts != elig {
            let missing: Vec<&String> = elig.difference(&full_texts).collect();
            let extra: Vec<&String> = full_texts.difference(&elig).collect();
            let sig = if !missing.is_empty() { "eligible-term-missing" } else { "option-does-not-match-prefix" };
            out.fail(sig, format!("covering request (size {cover}) returns {:?}; eligible terms missing {missing:?}, unexpected {extra:?}; {ctxt}", full.iter().map(|o| &o.text).collect::<Vec<_>>()));
            return out;
          }
          for o in full.iter() {
            if o.doc_freq != df[&o.text] {
              out.fail("doc-freq-wrong", format!("{o:?}: {} indexed documents contain the term; {ctxt}", df[&o.text]));
              return out;
            }
          }
          let want: Vec<Opt> = full.iter().take(case.size).cloned().collect();
          if !same_options(&got, &want) {
            out.fail("options-are-not-the-top-of-the-full-list", format!("size {} gives {got:?}; the covering list starts {want:?}; {ctxt}", case.size));
            return out;
          }
          out.class("below-cap-exact");
          if shared && elig.len() > case.size && layout.len() >= 2 {
            out.nontrivial(fingerprint_json(&(&case.docs, &case.field, &case.prefix, case.size, &case.fuzzy)));
          }
        } else {
          out.class("at-or-above-cap-soundness-only");
        }
        // (d) layout independence, only while every layout is below the cap
        match &first {
          None => {
            if below_cap {
              first = Some((layout.clone(), got.clone()));
            }
          }
          Some((l0, o0)) => {
            if below_cap && !same_options(o0, &got) {
              out.fail("suggestions-depend-on-segment-layout", format!("layout {l0:?} gives {o0:?}, layout {layout:?} gives {got:?}; {ctxt}"));
              return out;
            }
          }
        }
      } else {
        out.class("prefix-analyzed-away");
        match &first {
          None => first = Some((layout.clone(), got.clone())),
          Some((l0, o0)) => {
            if !same_options(o0, &got) {
              out.fail("suggestions-depend-on-segment-layout", format!("layout {l0:?} gives {o0:?}, layout {layout:?} gives {got:?}; {ctxt}"));
              return out;
            }
          }
        }
      }
    }
    out
  }
}
