#!/bin/bash
# tools/run_all.sh [tier] — run every registered check on the current tree, validate the evidence files.
cd /verif
TIER="${1:-quick}"
if ! git -C /repo diff --quiet; then echo "WARNING: /repo has uncommitted changes" >&2; fi
ids=$(python3 -c "import json; print(' '.join(c['property_id'] for c in json.load(open('MANIFEST.json'))['checks']))")
fail=0
for id in $ids; do
  start=$(date +%s.%N)
  out=$(./check $id --tier $TIER 2>/dev/null); rc=$?
  end=$(date +%s.%N)
  line=$(echo "$out" | grep -E "^$id " | tail -1)
  kn=$(echo "$out" | grep -c "^KNOWN-FINDING")
  printf "%s rc=%d known=%d t=%.1fs %s\n" "$id" "$rc" "$kn" "$(echo "$end - $start" | bc)" "$line"
  if [ $rc -ne 0 ]; then fail=1; echo "$out" | grep -E "VIOLATION|signature" | head -5; fi
done
python3-vt - <<'PY'
import json, jsonschema, glob, sys
schema = json.load(open('/root/.vp/EVIDENCE.schema.json'))
m = json.load(open('/verif/MANIFEST.json'))
bad = 0
for c in m['checks']:
    try:
        e = json.load(open(c['evidence_file']))
        jsonschema.validate(e, schema)
        assert e['property_id'] == c['property_id']
        assert e.get('violations', 0) == 0, "violations in evidence"
    except Exception as ex:
        bad += 1
        print("EVIDENCE PROBLEM", c['property_id'], str(ex)[:200])
print("evidence files ok" if not bad else f"{bad} evidence problems")
sys.exit(1 if bad else 0)
PY
[ $? -ne 0 ] && fail=1
exit $fail
