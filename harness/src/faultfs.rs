//! A `Storage` that fails chosen calls: wraps any storage, counts every storage-level call
//! (trait methods and file-handle primitives) while armed, and makes the k-th one fail before its
//! effect, after its effect, or (writes) after half of the bytes.
use std::io::{Read, Seek, SeekFrom, Write};
use std::path::Path;
use std::sync::atomic::{AtomicBool, AtomicU64, Ordering};
use std::sync::{Arc, Mutex};

use anyhow::{anyhow, Result};
use searchlite_core::storage::{DynFile, Storage, StorageFile};
use serde::{Deserialize, Serialize};

#[derive(Clone, Copy, Debug, PartialEq, Eq, Serialize, Deserialize)]
pub enum Mode {
  /// fail without performing the call
  Before,
  /// perform the call, then report failure
  After,
  /// writes: perform half of it, then fail (other calls: like Before)
  Half,
}

#[derive(Debug, Default)]
pub struct FaultState {
  /// counting and firing only happen while enabled (API calls under test, not the oracle's reads)
  pub enabled: AtomicBool,
  pub calls: AtomicU64,
  /// armed faults: (call index, mode); consumed when they fire
  pub plan: Mutex<Vec<(u64, Mode)>>,
  /// (call index, what, label of the API call in progress) of every fault that fired
  pub fired: Mutex<Vec<(u64, String, String)>>,
  pub label: Mutex<String>,
}

impl FaultState {
  pub fn new() -> Arc<FaultState> {
    Arc::new(FaultState::default())
  }
  pub fn set_label(&self, l: &str) {
    *self.label.lock().unwrap() = l.to_string();
  }
  /// Returns the mode if this call is to fail.
  fn tick(&self, what: &str) -> Option<Mode> {
    if !self.enabled.load(Ordering::SeqCst) {
      return None;
    }
    let k = self.calls.fetch_add(1, Ordering::SeqCst);
    let mut plan = self.plan.lock().unwrap();
    if let Some(pos) = plan.iter().position(|(i, _)| *i == k) {
      let (_, mode) = plan.remove(pos);
      self.fired.lock().unwrap().push((k, what.to_string(), self.label.lock().unwrap().clone()));
      return Some(mode);
    }
    None
  }
}

fn injected(what: &str) -> anyhow::Error {
  anyhow!("injected storage fault in {what}")
}
fn injected_io(what: &str) -> std::io::Error {
  std::io::Error::other(format!("injected storage fault in {what}"))
}

pub struct FaultyStorage {
  pub inner: Arc<dyn Storage>,
  pub state: Arc<FaultState>,
}

impl FaultyStorage {
  pub fn new(inner: Arc<dyn Storage>, state: Arc<FaultState>) -> Self {
    FaultyStorage { inner, state }
  }
  fn wrap(&self, f: DynFile, what: &'static str) -> DynFile {
    Box::new(FaultyFile { inner: f, state: self.state.clone(), what })
  }
}

macro_rules! simple {
  ($self:ident, $what:expr, $call:expr) => {{
    match $self.state.tick($what) {
      Some(Mode::After) => {
        let _ = $call;
        Err(injected($what))
      }
      Some(_) => Err(injected($what)),
      None => $call,
    }
  }};
}

impl Storage for FaultyStorage {
  fn root(&self) -> &Path {
    self.inner.root()
  }
  fn ensure_dir(&self, path: &Path) -> Result<()> {
    simple!(self, "ensure_dir", self.inner.ensure_dir(path))
  }
  fn exists(&self, path: &Path) -> bool {
    self.inner.exists(path)
  }
  fn open_read(&self, path: &Path) -> Result<DynFile> {
    match self.state.tick("open_read") {
      Some(_) => Err(injected("open_read")),
      None => self.inner.open_read(path).map(|f| self.wrap(f, "read-handle")),
    }
  }
  fn open_write(&self, path: &Path) -> Result<DynFile> {
    match self.state.tick("open_write") {
      Some(Mode::After) => {
        let _ = self.inner.open_write(path);
        Err(injected("open_write"))
      }
      Some(_) => Err(injected("open_write")),
      None => self.inner.open_write(path).map(|f| self.wrap(f, "write-handle")),
    }
  }
  fn open_append(&self, path: &Path) -> Result<DynFile> {
    match self.state.tick("open_append") {
      Some(Mode::After) => {
        let _ = self.inner.open_append(path);
        Err(injected("open_append"))
      }
      Some(_) => Err(injected("open_append")),
      None => self.inner.open_append(path).map(|f| self.wrap(f, "append-handle")),
    }
  }
  fn read_to_end(&self, path: &Path) -> Result<Vec<u8>> {
    match self.state.tick("read_to_end") {
      Some(_) => Err(injected("read_to_end")),
      None => self.inner.read_to_end(path),
    }
  }
  fn write_all(&self, path: &Path, data: &[u8]) -> Result<()> {
    match self.state.tick("write_all") {
      Some(Mode::After) => {
        let _ = self.inner.write_all(path, data);
        Err(injected("write_all"))
      }
      Some(Mode::Half) => {
        let _ = self.inner.write_all(path, &data[..data.len() / 2]);
        Err(injected("write_all"))
      }
      Some(Mode::Before) => Err(injected("write_all")),
      None => self.inner.write_all(path, data),
    }
  }
  fn atomic_write(&self, path: &Path, data: &[u8]) -> Result<()> {
    // atomic by contract: a failure leaves the old content (Before / Half) or the new one (After)
    match self.state.tick("atomic_write") {
      Some(Mode::After) => {
        let _ = self.inner.atomic_write(path, data);
        Err(injected("atomic_write"))
      }
      Some(_) => Err(injected("atomic_write")),
      None => self.inner.atomic_write(path, data),
    }
  }
  fn remove(&self, path: &Path) -> Result<()> {
    simple!(self, "remove", self.inner.remove(path))
  }
  fn remove_dir_all(&self, path: &Path) -> Result<()> {
    simple!(self, "remove_dir_all", self.inner.remove_dir_all(path))
  }
}

struct FaultyFile {
  inner: DynFile,
  state: Arc<FaultState>,
  what: &'static str,
}

impl Read for FaultyFile {
  fn read(&mut self, buf: &mut [u8]) -> std::io::Result<usize> {
    match self.state.tick("file.read") {
      Some(_) => Err(injected_io(self.what)),
      None => self.inner.read(buf),
    }
  }
}

impl Write for FaultyFile {
  fn write(&mut self, buf: &[u8]) -> std::io::Result<usize> {
    match self.state.tick("file.write") {
      Some(Mode::After) => {
        let _ = self.inner.write_all(buf);
        Err(injected_io(self.what))
      }
      Some(Mode::Half) => {
        let _ = self.inner.write_all(&buf[..buf.len() / 2]);
        Err(injected_io(self.what))
      }
      Some(Mode::Before) => Err(injected_io(self.what)),
      None => self.inner.write(buf),
    }
  }
  fn flush(&mut self) -> std::io::Result<()> {
    match self.state.tick("file.flush") {
      Some(Mode::After) => {
        let _ = self.inner.flush();
        Err(injected_io(self.what))
      }
      Some(_) => Err(injected_io(self.what)),
      None => self.inner.flush(),
    }
  }
}

impl Seek for FaultyFile {
  fn seek(&mut self, pos: SeekFrom) -> std::io::Result<u64> {
    match self.state.tick("file.seek") {
      Some(Mode::After) => {
        let _ = self.inner.seek(pos);
        Err(injected_io(self.what))
      }
      Some(_) => Err(injected_io(self.what)),
      None => self.inner.seek(pos),
    }
  }
}

impl StorageFile for FaultyFile {
  fn set_len(&mut self, len: u64) -> Result<()> {
    match self.state.tick("file.set_len") {
      Some(Mode::After) => {
        let _ = self.inner.set_len(len);
        Err(injected("file.set_len"))
      }
      Some(_) => Err(injected("file.set_len")),
      None => self.inner.set_len(len),
    }
  }
  fn sync_all(&mut self) -> Result<()> {
    match self.state.tick("file.sync_all") {
      Some(Mode::After) => {
        let _ = self.inner.sync_all();
        Err(injected("file.sync_all"))
      }
      Some(_) => Err(injected("file.sync_all")),
      None => self.inner.sync_all(),
    }
  }
}
