//! C10 — hit order follows the sort spec; scores follow BM25 combined through the query's boosts and
//! scoring functions (reference model: smodel.rs + sort keys computed from the raw documents).
use std::cmp::Ordering;

use proptest::collection::vec;
use proptest::prelude::*;
use serde::{Deserialize, Serialize};
use serde_json::{json, Value};

use crate::engine::{fingerprint_json, Ctx, Outcome, Plan, Property, Tier};
use crate::props::c08;
use crate::qgen::QGen;
use crate::qmodel::{Corpus, QueryModel};
use crate::rank::close;
use crate::scoreworld::{self, World, WorldOpts};
use crate::smodel::ScoreModel;
use crate::sut;

#[derive(Clone, Debug, Serialize, Deserialize)]
pub struct Q {
  pub query: Value,
  pub filter: Option<Value>,
  pub sort: Vec<Value>,
}

#[derive(Clone, Debug, Serialize, Deserialize)]
pub struct Case {
  pub world: World,
  pub queries: Vec<Q>,
}

pub struct C10;

#[derive(Clone, Debug, PartialEq)]
enum KeyVal {
  Score(f32),
  I(i64),
  F(f64),
  S(String),
  Missing,
}

fn resolved(sort: &[Value]) -> Vec<(String, bool)> {
  // (field, descending)
  let s: Vec<(String, bool)> = sort
    .iter()
    .map(|k| {
      let f = k["field"].as_str().unwrap_or("").to_string();
      let desc = match k.get("order").and_then(|o| o.as_str()) {
        Some("desc") => true,
        Some(_) => false,
        None => f == "_score",
      };
      (f, desc)
    })
    .collect();
  if s.is_empty() {
    vec![("_score".into(), true)]
  } else {
    s
  }
}

/// the documented sort value: min for ascending / max for descending on multi-valued fields
fn key_of(doc: &Value, field: &str, desc: bool, score: f32) -> KeyVal {
  if field == "_score" {
    return KeyVal::Score(score);
  }
  let vals = crate::model::value_list(doc.get(field));
  match field {
    "tag" | "cat" => {
      let mut s: Vec<String> = vals.iter().filter_map(|v| v.as_str().map(|x| x.to_string())).collect();
      s.sort();
      match if desc { s.last() } else { s.first() } {
        Some(x) => KeyVal::S(x.clone()),
        None => KeyVal::Missing,
      }
    }
    "year" | "rank" => {
      let mut s: Vec<i64> = vals.iter().filter_map(|v| v.as_i64()).collect();
      s.sort();
      match if desc { s.last() } else { s.first() } {
        Some(x) => KeyVal::I(*x),
        None => KeyVal::Missing,
      }
    }
    _ => {
      let mut s: Vec<f64> = vals.iter().filter_map(|v| v.as_f64()).collect();
      s.sort_by(|a, b| a.total_cmp(b));
      match if desc { s.last() } else { s.first() } {
        Some(x) => KeyVal::F(*x),
        None => KeyVal::Missing,
      }
    }
  }
}

fn cmp_part(a: &KeyVal, b: &KeyVal, desc: bool) -> Ordering {
  let o = match (a, b) {
    (KeyVal::Missing, KeyVal::Missing) => return Ordering::Equal,
    // missing values last, whatever the direction
    (KeyVal::Missing, _) => return Ordering::Greater,
    (_, KeyVal::Missing) => return Ordering::Less,
    (KeyVal::Score(x), KeyVal::Score(y)) => x.total_cmp(y),
    (KeyVal::I(x), KeyVal::I(y)) => x.cmp(y),
    (KeyVal::F(x), KeyVal::F(y)) => x.total_cmp(y),
    (KeyVal::S(x), KeyVal::S(y)) => x.cmp(y),
    _ => Ordering::Equal,
  };
  if desc {
    o.reverse()
  } else {
    o
  }
}

impl Property for C10 {
  type Case = Case;
  const ID: &'static str = "C10";
  fn rule() -> String {
    "cases = tie-heavy corpus (tiny value domains, missing and multi-valued sort fields) of 5-60 documents in 1-4 segments and 8 requests (scored query tree incl. boosts, dis_max, multi_match, prefix, constant_score, function_score with weight/field_value_factor/decay, rank_feature, script_score; optional filter; sort plan of 0-3 keys) run with execution=bm25 and a limit covering all matches; (a) the returned hits must be sorted by the documented sort keys computed from the raw documents (min for asc / max for desc, missing last, returned scores for _score parts) with ties broken by (segment, document order); (b) on corpora without deletions every score must equal the reference BM25 combination within 1e-5 relative. Non-trivial = two hits tie on the whole user key and live in different segments or a multi-valued/missing value decides a comparison, and for (b) the query has >=2 scoring leaves; distinct = hash of (query, sort, corpus)".into()
  }
  fn assumptions() -> Vec<String> {
    vec![
      "BM25 equality is only judged on histories without deletions or upserts (segment statistics are then unambiguous)".into(),
      "not generated / not judged: keyword-field terms in scoring position, wildcard/regex/fuzzy expansions, max_boost, the same (field, term) in two scoring clauses (the engine merges them), function fields other than the single-valued `rank`".into(),
    ]
  }
  fn plan(tier: Tier) -> Plan {
    Plan { workers: 16, cases_per_worker: tier.pick(1000, 30000) }
  }
  fn shrink_iters() -> u32 {
    800
  }
  fn strategy(_tier: Tier) -> BoxedStrategy<Case> {
    let schema = scoreworld::schema();
    let mut g = QGen::new(&schema, 6, false);
    g.kw.clear();
    g.rank = vec!["rank".to_string()];
    g.prefix_only = true;
    let with_del = scoreworld::world(WorldOpts { min_docs: 5, max_docs: 60, max_commits: 4, deletes: true, ties: true, vocab: 6 });
    let no_del = scoreworld::world(WorldOpts { min_docs: 5, max_docs: 60, max_commits: 4, deletes: false, ties: true, vocab: 6 });
    let q = (prop_oneof![1 => Just(json!({"type": "match_all"})), 8 => g.tree(2)], proptest::option::weighted(0.2, c08::root_filter(&schema, 1)), scoreworld::sort_plan(3)).prop_map(|(query, filter, sort)| Q { query, filter, sort });
    (prop_oneof![1 => with_del, 2 => no_del], vec(q, 8)).prop_map(|(world, queries)| Case { world, queries }).boxed()
  }
  fn run(case: &Case, _ctx: &Ctx) -> Outcome {
    let mut out = Outcome::new();
    let built = match case.world.build("c10") {
      Ok(b) => b,
      Err(e) => {
        out.fail("corpus-build-failed", format!("{e:#}"));
        return out;
      }
    };
    let reader = match built.idx.reader() {
      Ok(r) => r,
      Err(e) => {
        out.fail("reader-open-failed", format!("{e:#}"));
        return out;
      }
    };
    // cross-check the model's (segment, ordinal) with the public reader surface
    for (id, _, seg, ord) in built.live.iter() {
      let got = reader.segments.get(*seg).and_then(|s| s.doc_id(*ord as u32)).map(|s| s.to_string());
      if got.as_deref() != Some(id.as_str()) {
        out.fail("model-ordinal-mismatch", format!("harness expects {id} at segment {seg} ordinal {ord}, reader has {:?}", got));
        return out;
      }
    }
    let schema = scoreworld::schema();
    let docs: Vec<(String, Value)> = built.live.iter().map(|(id, d, _, _)| (id.clone(), d.clone())).collect();
    let corpus = Corpus::new(&schema, &docs);
    let all_text: Vec<String> = schema.text.iter().map(|t| t.name.clone()).collect();
    let qm = QueryModel::new(&corpus, all_text.clone(), None);
    let sm = ScoreModel::new(&schema, &corpus, &built.live, case.world.k1, case.world.b);
    let judge_scores = case.world.deletes.is_empty();
    let n = case.world.docs.len();
    for q in case.queries.iter() {
      out.evals += 1;
      let mut req = json!({"query": q.query, "limit": n + 5, "execution": "bm25", "sort": q.sort});
      if let Some(f) = &q.filter {
        req["filter"] = f.clone();
      }
      let res = match sut::search(&reader, req.clone()) {
        Ok(r) => r,
        Err(_) => {
          out.class("request-rejected");
          continue;
        }
      };
      let plan = resolved(&q.sort);
      // (a) order
      let pos: Vec<(Vec<KeyVal>, usize, usize, &str, f32)> = res
        .hits
        .iter()
        .map(|h| {
          let (_, d, seg, ord) = built.live.iter().find(|(id, _, _, _)| *id == h.doc_id).expect("hit is a live document");
          (plan.iter().map(|(f, desc)| key_of(d, f, *desc, h.score)).collect(), *seg, *ord, h.doc_id.as_str(), h.score)
        })
        .collect();
      let mut tie_across_segments = false;
      let mut multi_decides = false;
      for w in pos.windows(2) {
        let (a, b) = (&w[0], &w[1]);
        let mut ord = Ordering::Equal;
        for (i, (_, desc)) in plan.iter().enumerate() {
          ord = cmp_part(&a.0[i], &b.0[i], *desc);
          if ord != Ordering::Equal {
            break;
          }
        }
        if ord == Ordering::Equal {
          ord = (a.1, a.2).cmp(&(b.1, b.2));
          if a.1 != b.1 {
            tie_across_segments = true;
          }
        }
        if ord == Ordering::Greater {
          out.fail("hits-not-in-sort-order", format!("{} (keys {:?}, segment {}, ordinal {}) is returned before {} (keys {:?}, segment {}, ordinal {}) under sort {:?}; request {req}", a.3, a.0, a.1, a.2, b.3, b.0, b.1, b.2, plan));
          return out;
        }
      }
      for (i, (f, _)) in plan.iter().enumerate() {
        if f != "_score" && pos.iter().any(|p| matches!(p.0[i], KeyVal::Missing)) && pos.iter().any(|p| !matches!(p.0[i], KeyVal::Missing)) {
          multi_decides = true;
        }
        if f != "_score" && built.live.iter().any(|(_, d, _, _)| d.get(f).and_then(|v| v.as_array()).map(|a| a.len() > 1).unwrap_or(false)) {
          multi_decides = true;
        }
      }
      // (b) scores
      let uses_score = plan.iter().any(|(f, _)| f == "_score");
      let mut leaves = 0usize;
      if judge_scores && uses_score {
        let b = sm.build(&q.query, &all_text);
        leaves = b.leaves.iter().filter(|l| !l.is_empty()).count();
        if b.duplicate_keys {
          out.class("duplicate-term-across-clauses");
        } else {
          for h in res.hits.iter() {
            match sm.score(&qm, &b, &h.doc_id) {
              Some(want) => {
                if !close(want, h.score) {
                  let d = built.live.iter().find(|(id, _, _, _)| *id == h.doc_id).map(|(_, d, _, _)| d.to_string()).unwrap_or_default();
                  out.fail("score-differs-from-bm25-model", format!("doc {} scored {} but the reference BM25 combination gives {} (k1={}, b={}); doc {d}; request {req}", h.doc_id, h.score, want, case.world.k1, case.world.b));
                  return out;
                }
              }
              None => out.class("score-undecided-by-model"),
            }
          }
          out.class("scores-judged");
        }
      }
      if tie_across_segments || multi_decides {
        if !(judge_scores && uses_score) || leaves >= 2 {
          out.nontrivial(fingerprint_json(&(&q.query, &q.sort, n)));
        }
      }
    }
    out
  }
}
