//! Reference aggregation evaluator over raw documents (scoreworld schema): an independent
//! computation over all matched live documents, with bucket limits and document-count thresholds
//! applied to the merged counts. Produces JSON in the shape of the crate's `AggregationResponse`.
use std::collections::{BTreeMap, BTreeSet};

use serde_json::{json, Map, Value};

use crate::fmodel;
use crate::gen::SchemaSpec;
use crate::model::value_list;

pub struct Doc<'a> {
  pub id: &'a str,
  pub json: &'a Value,
  pub score: f32,
}

pub struct AggModel<'a> {
  pub schema: &'a SchemaSpec,
  /// position of every document under a given sort plan (key = serialized sort plan), supplied by the caller
  pub order: &'a dyn Fn(&Value) -> Option<BTreeMap<String, usize>>,
}

fn is_i64_field(f: &str) -> bool {
  f == "year" || f == "rank"
}

fn nums(doc: &Value, field: &str, missing: Option<f64>) -> Vec<f64> {
  let v: Vec<f64> = value_list(doc.get(field)).iter().filter_map(|x| x.as_f64()).collect();
  if v.is_empty() {
    missing.into_iter().collect()
  } else {
    v
  }
}

fn strs(doc: &Value, field: &str) -> Vec<String> {
  value_list(doc.get(field)).iter().filter_map(|x| x.as_str().map(|s| s.to_string())).collect()
}

fn missing_f64(v: Option<&Value>) -> Option<f64> {
  let v = v?;
  v.as_f64().or_else(|| v.as_str().and_then(|s| s.parse().ok()))
}

fn key_string(k: &Value) -> String {
  k.as_str().map(|s| s.to_string()).unwrap_or_else(|| k.to_string())
}

fn fmt_f64(p: f64) -> String {
  format!("{p}")
}

impl<'a> AggModel<'a> {
  /// None = this aggregation (or one of its children) is outside the modelled subset
  pub fn eval(&self, agg: &Value, docs: &[&Doc]) -> Option<Value> {
    let ty = agg["type"].as_str()?;
    let subs: Vec<(String, Value)> = agg.get("aggs").and_then(|a| a.as_object()).map(|m| m.iter().map(|(k, v)| (k.clone(), v.clone())).collect()).unwrap_or_default();
    let children = |members: &[&Doc]| -> Option<Map<String, Value>> {
      let mut out = Map::new();
      for (name, sub) in subs.iter() {
        out.insert(name.clone(), self.eval(sub, members)?);
      }
      Some(out)
    };
    let bucket = |key: Value, members: &[&Doc]| -> Option<Value> {
      let mut b = Map::new();
      b.insert("key".into(), key);
      b.insert("doc_count".into(), json!(members.len()));
      let c = children(members)?;
      if !c.is_empty() {
        b.insert("aggregations".into(), Value::Object(c));
      }
      Some(Value::Object(b))
    };
    match ty {
      "terms" | "rare_terms" => {
        let field = agg["field"].as_str()?;
        let mut groups: BTreeMap<String, Vec<&Doc>> = BTreeMap::new();
        let mut missing_members: Vec<&Doc> = Vec::new();
        for d in docs.iter() {
          let vals: BTreeSet<String> = strs(d.json, field).into_iter().collect();
          if vals.is_empty() {
            missing_members.push(d);
          }
          for v in vals {
            groups.entry(v).or_default().push(d);
          }
        }
        let mut entries: Vec<(Value, Vec<&Doc>)> = groups.into_iter().map(|(k, v)| (Value::String(k), v)).collect();
        if ty == "terms" {
          if let Some(m) = agg.get("missing").filter(|m| !m.is_null()) {
            if !missing_members.is_empty() {
              // a missing key equal to a real key merges with it
              let mk = key_string(m);
              if let Some(e) = entries.iter_mut().find(|(k, _)| key_string(k) == mk) {
                e.1.extend(missing_members.iter().copied());
              } else {
                entries.push((m.clone(), missing_members.clone()));
              }
            }
          }
          let min = agg.get("min_doc_count").and_then(|v| v.as_u64()).unwrap_or(1) as usize;
          entries.retain(|(_, m)| m.len() >= min);
          entries.sort_by(|a, b| b.1.len().cmp(&a.1.len()).then_with(|| key_string(&a.0).cmp(&key_string(&b.0))));
        } else {
          let max = agg.get("max_doc_count").and_then(|v| v.as_u64()).unwrap_or(1) as usize;
          entries.retain(|(_, m)| !m.is_empty() && m.len() <= max);
          entries.sort_by(|a, b| a.1.len().cmp(&b.1.len()).then_with(|| key_string(&a.0).cmp(&key_string(&b.0))));
        }
        if let Some(size) = agg.get("size").and_then(|v| v.as_u64()) {
          entries.truncate(size as usize);
        }
        let mut buckets = Vec::new();
        for (k, m) in entries {
          buckets.push(bucket(k, &m)?);
        }
        Some(json!({"type": ty, "buckets": buckets}))
      }
      "range" => {
        let field = agg["field"].as_str()?;
        let missing = missing_f64(agg.get("missing"));
        let mut buckets = Vec::new();
        for r in agg["ranges"].as_array()? {
          let from = r.get("from").and_then(|v| v.as_f64());
          let to = r.get("to").and_then(|v| v.as_f64());
          let members: Vec<&Doc> = docs.iter().copied().filter(|d| nums(d.json, field, missing).iter().any(|v| from.map(|f| *v >= f).unwrap_or(true) && to.map(|t| *v < t).unwrap_or(true))).collect();
          let key = match r.get("key").and_then(|k| k.as_str()) {
            Some(k) => json!(k),
            None => json!({"from": from, "to": to}),
          };
          buckets.push(bucket(key, &members)?);
        }
        Some(json!({"type": "range", "buckets": buckets, "keyed": agg["keyed"].as_bool().unwrap_or(false)}))
      }
      "histogram" => {
        let field = agg["field"].as_str()?;
        let interval = agg["interval"].as_f64()?;
        let offset = agg.get("offset").and_then(|v| v.as_f64()).unwrap_or(0.0);
        let missing = agg.get("missing").and_then(|v| v.as_f64());
        let ext = agg.get("extended_bounds").filter(|v| !v.is_null()).map(|b| (b["min"].as_f64().unwrap_or(0.0), b["max"].as_f64().unwrap_or(0.0)));
        let hard = agg.get("hard_bounds").filter(|v| !v.is_null()).map(|b| (b["min"].as_f64().unwrap_or(0.0), b["max"].as_f64().unwrap_or(0.0)));
        let min_doc_count = agg.get("min_doc_count").and_then(|v| v.as_u64()).unwrap_or(if ext.is_some() || hard.is_some() { 0 } else { 1 }) as usize;
        let bid = |v: f64| ((v - offset) / interval).floor() as i64;
        let mut groups: BTreeMap<i64, Vec<&Doc>> = BTreeMap::new();
        for d in docs.iter() {
          let ids: BTreeSet<i64> = nums(d.json, field, missing).into_iter().filter(|v| hard.map(|(lo, hi)| *v >= lo && *v <= hi).unwrap_or(true)).map(bid).collect();
          for i in ids {
            groups.entry(i).or_default().push(d);
          }
        }
        if let Some((lo, hi)) = ext.or(hard) {
          let mut i = bid(lo);
          while i <= bid(hi) {
            groups.entry(i).or_default();
            i += 1;
          }
        }
        let mut buckets = Vec::new();
        for (i, m) in groups {
          if m.len() < min_doc_count {
            continue;
          }
          let key = i as f64 * interval + offset;
          if m.is_empty() {
            // an empty filler bucket carries no sub-aggregations
            buckets.push(json!({"key": key, "doc_count": 0}));
          } else {
            buckets.push(bucket(json!(key), &m)?);
          }
        }
        Some(json!({"type": "histogram", "buckets": buckets}))
      }
      "filter" => {
        let members: Vec<&Doc> = docs.iter().copied().filter(|d| fmodel::passes(self.schema, &agg["filter"], d.json)).collect();
        let mut out = Map::new();
        out.insert("type".into(), json!("filter"));
        out.insert("doc_count".into(), json!(members.len()));
        let c = children(&members)?;
        if !c.is_empty() {
          out.insert("aggregations".into(), Value::Object(c));
        }
        Some(Value::Object(out))
      }
      "stats" | "extended_stats" | "value_count" => {
        let field = agg["field"].as_str()?;
        let missing = missing_f64(agg.get("missing"));
        let vals: Vec<f64> = docs.iter().flat_map(|d| nums(d.json, field, missing)).collect();
        if ty == "value_count" {
          return Some(json!({"type": "value_count", "value": vals.len()}));
        }
        let n = vals.len() as f64;
        let sum: f64 = vals.iter().sum();
        let (min, max) = if vals.is_empty() { (0.0, 0.0) } else { (vals.iter().copied().fold(f64::INFINITY, f64::min), vals.iter().copied().fold(f64::NEG_INFINITY, f64::max)) };
        let avg = if vals.is_empty() { 0.0 } else { sum / n };
        if ty == "stats" {
          return Some(json!({"type": "stats", "count": vals.len(), "min": min, "max": max, "sum": sum, "avg": avg}));
        }
        let var = if vals.is_empty() { 0.0 } else { vals.iter().map(|v| (v - avg) * (v - avg)).sum::<f64>() / n };
        Some(json!({"type": "extended_stats", "count": vals.len(), "min": min, "max": max, "sum": sum, "avg": avg, "variance": var, "std_deviation": var.sqrt()}))
      }
      "cardinality" => {
        let field = agg["field"].as_str()?;
        let mut set: BTreeSet<String> = BTreeSet::new();
        for d in docs.iter() {
          if field == "tag" || field == "cat" {
            let mut v = strs(d.json, field);
            if v.is_empty() {
              if let Some(m) = agg.get("missing").and_then(|m| m.as_str()) {
                v.push(m.to_string());
              }
            }
            set.extend(v);
          } else if is_i64_field(field) {
            let mut v: Vec<i64> = value_list(d.json.get(field)).iter().filter_map(|x| x.as_i64()).collect();
            if v.is_empty() {
              if let Some(m) = agg.get("missing").and_then(|m| m.as_i64()) {
                v.push(m);
              }
            }
            set.extend(v.into_iter().map(|x| x.to_string()));
          } else {
            let v = nums(d.json, field, missing_f64(agg.get("missing")));
            set.extend(v.into_iter().map(|x| format!("{:016x}", x.to_bits())));
          }
        }
        Some(json!({"type": "cardinality", "value": set.len()}))
      }
      "percentiles" | "percentile_ranks" => {
        let field = agg["field"].as_str()?;
        let missing = missing_f64(agg.get("missing"));
        let mut vals: Vec<f64> = docs.iter().flat_map(|d| nums(d.json, field, missing)).collect();
        if vals.len() > 256 {
          return None;
        }
        vals.sort_by(|a, b| a.total_cmp(b));
        let mut out = Map::new();
        if ty == "percentiles" {
          let ps: Vec<f64> = agg.get("percents").and_then(|p| p.as_array()).map(|a| a.iter().filter_map(|x| x.as_f64()).collect()).unwrap_or_else(|| vec![1.0, 5.0, 25.0, 50.0, 75.0, 95.0, 99.0]);
          for p in ps {
            let v = if vals.is_empty() {
              0.0
            } else {
              // linear interpolation at rank p/100 * (n-1)
              let rank = (p.clamp(0.0, 100.0) / 100.0) * (vals.len() as f64 - 1.0);
              let lo = rank.floor() as usize;
              let hi = rank.ceil() as usize;
              let w = rank - lo as f64;
              vals[lo] * (1.0 - w) + vals[hi] * w
            };
            out.insert(fmt_f64(p), json!(v));
          }
        } else {
          for t in agg["values"].as_array()?.iter().filter_map(|x| x.as_f64()) {
            let v = if vals.is_empty() { 0.0 } else { vals.iter().filter(|x| **x <= t).count() as f64 / vals.len() as f64 * 100.0 };
            out.insert(fmt_f64(t), json!(v));
          }
        }
        Some(json!({"type": ty, "values": out}))
      }
      "top_hits" => {
        let size = agg["size"].as_u64()? as usize;
        let from = agg.get("from").and_then(|v| v.as_u64()).unwrap_or(0) as usize;
        let sort = agg.get("sort").cloned().unwrap_or(json!([]));
        let pos = (self.order)(&sort)?;
        let mut members: Vec<&Doc> = docs.to_vec();
        members.sort_by_key(|d| pos.get(d.id).copied().unwrap_or(usize::MAX));
        let hits: Vec<Value> = members.iter().skip(from).take(size).map(|d| json!({"doc_id": d.id, "score": d.score, "fields": null, "snippet": null})).collect();
        Some(json!({"type": "top_hits", "total": docs.len(), "hits": hits}))
      }
      _ => None,
    }
  }
}
