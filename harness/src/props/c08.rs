//! C08 — filters follow the documented filter semantics (reference evaluator over JSON).
use std::collections::BTreeSet;

use proptest::collection::vec;
use proptest::prelude::*;
use proptest::sample::select;
use serde::{Deserialize, Serialize};
use serde_json::{json, Map, Value};

use crate::engine::{fingerprint_json, Ctx, Outcome, Plan, Property, Tier};
use crate::fmodel;
use crate::gen::{self, DocOpts, NestedSpec, PropSpec, SchemaOpts, SchemaSpec};
use crate::model::Kind;
use crate::sut::{self, Scratch, StorageKind};

#[derive(Clone, Debug, Serialize, Deserialize)]
pub struct Case {
  pub schema: SchemaSpec,
  /// documents (bodies); ids are d0..dn; committed in `commits` batches
  pub docs: Vec<Map<String, Value>>,
  pub commits: usize,
  pub filters: Vec<Value>,
}

#[derive(Clone, Debug)]
pub struct LeafRef {
  pub name: String,
  pub kind: Kind,
}

fn obj_leaves(n: &NestedSpec) -> Vec<LeafRef> {
  n.props
    .iter()
    .filter_map(|p| match p {
      PropSpec::Keyword(k) => Some(LeafRef { name: k.name.clone(), kind: Kind::Keyword }),
      PropSpec::Numeric(x) => Some(LeafRef { name: x.name.clone(), kind: if x.i64 { Kind::I64 } else { Kind::F64 } }),
      _ => None,
    })
    .collect()
}

fn obj_children(n: &NestedSpec) -> Vec<NestedSpec> {
  n.props
    .iter()
    .filter_map(|p| match p {
      PropSpec::Object(o) => Some(o.clone()),
      _ => None,
    })
    .collect()
}

fn root_leaves(schema: &SchemaSpec) -> Vec<LeafRef> {
  let mut out = Vec::new();
  for k in schema.keyword.iter() {
    out.push(LeafRef { name: k.name.clone(), kind: Kind::Keyword });
  }
  for n in schema.numeric.iter() {
    out.push(LeafRef { name: n.name.clone(), kind: if n.i64 { Kind::I64 } else { Kind::F64 } });
  }
  // dotted paths through the first nesting level ("filter on the dotted path directly")
  for n in schema.nested.iter() {
    for l in obj_leaves(n) {
      out.push(LeafRef { name: format!("{}.{}", n.name, l.name), kind: l.kind });
    }
  }
  out
}

pub fn leaf_clause(leaves: Vec<LeafRef>) -> BoxedStrategy<Value> {
  if leaves.is_empty() {
    return Just(json!({"KeywordEq": {"field": "nosuchfield", "value": "x"}})).boxed();
  }
  let kws: Vec<String> = gen::KEYWORDS.iter().map(|s| s.to_string()).chain(["rEd", "BLUE", "ÉA", "Two Words", "absent"].iter().map(|s| s.to_string())).collect();
  (select(leaves), select(kws.clone()), vec(select(kws), 0..3), -4i64..9, 0i64..5, -7i32..18, 0i32..8, 0u32..20)
    .prop_map(|(leaf, kw, kwin, imin, ispan, fmin, fspan, mismatch)| {
      let fminf = fmin as f64 * 0.5;
      let fmaxf = fminf + fspan as f64 * 0.5;
      // 1 in 20: deliberately apply a clause of the wrong type (must match nothing)
      let kind = if mismatch == 0 {
        match leaf.kind {
          Kind::Keyword => Kind::I64,
          Kind::I64 => Kind::F64,
          Kind::F64 => Kind::I64,
          Kind::Text => Kind::Keyword,
        }
      } else {
        leaf.kind
      };
      match kind {
        Kind::Keyword | Kind::Text => {
          if mismatch % 3 == 1 {
            json!({"KeywordIn": {"field": leaf.name, "values": kwin}})
          } else {
            json!({"KeywordEq": {"field": leaf.name, "value": kw}})
          }
        }
        Kind::I64 => json!({"I64Range": {"field": leaf.name, "min": imin, "max": imin + ispan}}),
        Kind::F64 => json!({"F64Range": {"field": leaf.name, "min": fminf, "max": fmaxf}}),
      }
    })
    .boxed()
}

pub fn filter_tree(leaves: Vec<LeafRef>, children: Vec<NestedSpec>, depth: usize) -> BoxedStrategy<Value> {
  let leaf = leaf_clause(leaves.clone());
  if depth == 0 {
    return leaf;
  }
  let sub = filter_tree(leaves.clone(), children.clone(), depth - 1);
  let mut options: Vec<(u32, BoxedStrategy<Value>)> = vec![
    (4, leaf.clone()),
    (2, vec(sub.clone(), 1..4).prop_map(|v| json!({"And": v})).boxed()),
    (2, vec(sub.clone(), 1..4).prop_map(|v| json!({"Or": v})).boxed()),
    (2, sub.clone().prop_map(|f| json!({"Not": f})).boxed()),
  ];
  for c in children.iter() {
    let path = c.name.clone();
    let inner = filter_tree(obj_leaves(c), obj_children(c), depth - 1);
    let p1 = path.clone();
    options.push((4, inner.clone().prop_map(move |f| json!({"Nested": {"path": p1, "filter": f}})).boxed()));
    // sibling Nested clauses on the same path under And (must bind to one object)
    let p2 = path.clone();
    options.push((
      4,
      (vec(inner.clone(), 2..4), proptest::option::of(sub.clone()))
        .prop_map(move |(inners, extra)| {
          let mut v: Vec<Value> = inners.into_iter().map(|f| json!({"Nested": {"path": p2, "filter": f}})).collect();
          if let Some(e) = extra {
            v.push(e);
          }
          json!({"And": v})
        })
        .boxed(),
    ));
  }
  proptest::strategy::Union::new_weighted(options).boxed()
}

pub fn root_filter(schema: &SchemaSpec, depth: usize) -> BoxedStrategy<Value> {
  filter_tree(root_leaves(schema), schema.nested.clone(), depth)
}

fn has_tag(f: &Value, tag: &str) -> bool {
  match f {
    Value::Object(m) => m.iter().any(|(k, v)| k == tag || has_tag(v, tag)),
    Value::Array(a) => a.iter().any(|v| has_tag(v, tag)),
    _ => false,
  }
}

pub struct C08;

pub const SIG_MULTI_PARENT: &str = "nested-children-of-two-parents-collide";

impl Property for C08 {
  type Case = Case;
  const ID: &'static str = "C08";
  fn rule() -> String {
    "cases = random schema (fast keyword/i64/f64 fields, nested objects up to 3 levels), 4-20 documents with arrays of parent objects each holding child arrays, committed in 1-3 segments, and 6 filter trees (depth<=3: And/Or/Not/Nested, sibling Nested on one path, Nested in Nested, dotted paths, type-mismatched clauses); each filter is observed through request.filter, bool.filter and constant_score.filter and compared with the JSON reference evaluator. Non-trivial = the filter contains a Nested clause and some document has >=2 objects under that path, or a multi-valued field is present, and the expected set is neither empty nor everything; distinct = hash of (filter, documents)".into()
  }
  fn assumptions() -> Vec<String> {
    vec!["inside a Nested clause only direct leaf properties of the bound object are addressed (dotted paths inside Nested are not generated: undocumented)".into()]
  }
  fn plan(tier: Tier) -> Plan {
    Plan { workers: 16, cases_per_worker: tier.pick(1500, 30000) }
  }
  fn strategy(_tier: Tier) -> BoxedStrategy<Case> {
    let so = SchemaOpts { force_fast: true, analyzers: false, custom_id: false, max_text: 1, nested_depth: 3, ..SchemaOpts::default() };
    gen::schema(so)
      .prop_flat_map(|schema| {
        let d = DocOpts { text: gen::TextOpts { max_words: 2, odd: false, vocab: 6 }, max_multi: 3, absent: 2, max_nested_objs: 3, null_items: false, extremes: false };
        let docs = vec(gen::doc_body(&schema, d), 4..20);
        let filters = vec(root_filter(&schema, 3), 6);
        (Just(schema), docs, 1usize..4, filters)
      })
      .prop_map(|(schema, docs, commits, filters)| Case { schema, docs, commits, filters })
      .boxed()
  }
  fn run(case: &Case, ctx: &Ctx) -> Outcome {
    let mut out = Outcome::new();
    let scratch = Scratch::new("c08");
    let root = scratch.sub("idx");
    let storage = sut::make_storage(&root, StorageKind::Mem);
    let opts = sut::default_options(&root, StorageKind::Mem);
    let idx = match sut::create_index(&root, &case.schema, opts, storage) {
      Ok(i) => i,
      Err(e) => {
        out.fail("create-failed", format!("{e:#}"));
        return out;
      }
    };
    let docs: Vec<(String, Value)> = case.docs.iter().enumerate().map(|(i, b)| (format!("d{i}"), gen::with_id(&case.schema, &format!("d{i}"), b.clone()))).collect();
    let per = (docs.len() + case.commits - 1) / case.commits.max(1);
    {
      let mut w = idx.writer().expect("writer");
      for (i, (_, d)) in docs.iter().enumerate() {
        if let Err(e) = w.add_document(&sut::document(d)) {
          out.fail("valid-doc-rejected", format!("{e:#}: {d}"));
          return out;
        }
        if (i + 1) % per.max(1) == 0 {
          if let Err(e) = w.commit() {
            out.fail("commit-failed", format!("{e:#}"));
            return out;
          }
        }
      }
      if let Err(e) = w.commit() {
        out.fail("commit-failed", format!("{e:#}"));
        return out;
      }
    }
    let reader = match idx.reader() {
      Ok(r) => r,
      Err(e) => {
        out.fail("reader-open-failed", format!("{e:#}"));
        return out;
      }
    };
    let multi_valued = docs.iter().any(|(_, d)| d.as_object().unwrap().values().any(|v| v.as_array().map(|a| a.len() > 1 && !a[0].is_object()).unwrap_or(false)));
    let known_mp = ctx.is_known(Self::ID, SIG_MULTI_PARENT);
    for f in case.filters.iter() {
      out.evals += 1;
      let expected: BTreeSet<String> = docs.iter().filter(|(_, d)| fmodel::passes(&case.schema, f, d)).map(|(id, _)| id.clone()).collect();
      // documents inside the region of the listed finding: children of >=2 parents under a path the filter traverses
      let mut deep = Vec::new();
      fmodel::deep_nested_paths(f, "", &mut deep);
      let mut region: BTreeSet<String> = BTreeSet::new();
      for (id, d) in docs.iter() {
        'p: for p in deep.iter() {
          let parts: Vec<&str> = p.split('.').collect();
          for n in 2..=parts.len() {
            if fmodel::multi_parent_children(d, &parts[..n].join(".")) {
              region.insert(id.clone());
              break 'p;
            }
          }
        }
      }
      let limit = docs.len() + 10;
      let requests = [
        ("request.filter", json!({"query": {"type": "match_all"}, "filter": f, "limit": limit, "execution": "bm25"})),
        ("bool.filter", json!({"query": {"type": "bool", "filter": [f]}, "limit": limit, "execution": "bm25"})),
        ("constant_score.filter", json!({"query": {"type": "constant_score", "filter": f}, "limit": limit, "execution": "bm25"})),
      ];
      for (via, req) in requests.iter() {
        let got: BTreeSet<String> = match sut::search(&reader, req.clone()) {
          Ok(r) => r.hits.iter().map(|h| h.doc_id.clone()).collect(),
          Err(e) => {
            out.fail("search-error", format!("filter {f} via {via}: search failed: {e:#}"));
            return out;
          }
        };
        if got != expected {
          let wrong: BTreeSet<&String> = got.symmetric_difference(&expected).collect();
          let explained = wrong.iter().all(|id| region.contains(*id));
          let sample_id = wrong.iter().next().unwrap();
          let sample_doc = docs.iter().find(|(i, _)| i == *sample_id).map(|(_, d)| d.clone()).unwrap_or(Value::Null);
          let detail = format!("filter {f} via {via}: got {:?}, reference evaluator says {:?}; first differing doc {sample_doc}", got, expected);
          if explained && !region.is_empty() {
            out.fail(SIG_MULTI_PARENT, detail);
            if known_mp {
              out.excluded_known += 1;
              break;
            }
          } else {
            out.fail("filter-mismatch", detail);
          }
          return out;
        }
      }
      let nested = has_tag(f, "Nested");
      let multi_obj = nested && docs.iter().any(|(_, d)| case.schema.nested.iter().any(|n| d.get(&n.name).and_then(|v| v.as_array()).map(|a| a.len() >= 2).unwrap_or(false)));
      if nested {
        out.class("has-nested");
      }
      if !deep.is_empty() {
        out.class("nested-in-nested");
      }
      if !expected.is_empty() && expected.len() < docs.len() {
        out.class("selective");
        if multi_obj || multi_valued {
          out.nontrivial(fingerprint_json(&(f, &case.docs)));
        }
      }
    }
    out
  }
}
